"""C04 — grouping keys are released only if public or above the tau threshold.

K1 parameter agreement in PupRelation::tau_thresholding_values (Cu feeds the cap, sqrt(Cu) the noise, Cu tau; same epsilon, delta everywhere)
K2 pipeline order: self -> unique(keys + pu) -> limit_col_contributions -> Reduce counting pu by the keys -> add_gaussian_noise -> filter_columns -> filter_fields
K3 threshold direction: tau sits in the `min` slot and Expr::filter_column turns a min bound into a strict `gt`, conjoined with `and`
K4 public-branch gate of PupRelation::dp_values
K5 (added) the aggregation runs over the join with the released keys: Reduce::differentially_private / join_with_grouping_values
"""
import re
from . import facts
from .core import Src, Anchor, find, walk, walk_guards, show, path_of, is_call_to, strip_generics, pat_binds
from .util_dpflow import FnEnv, norm, strip_wrappers, chain_root, callee_name, pat_ident, contains, strip_try, _tail_expr, _closures

LEVEL = "other"
EXHAUSTIVE = False

GB = "differential_privacy/group_by.rs"
STAGES = ("unique", "limit_col_contributions", "add_gaussian_noise", "filter_columns", "filter_fields")
PIPELINE = ("self", "unique", "limit_col_contributions", "Reduce", "add_gaussian_noise", "filter_columns", "filter_fields")


def is_self_m(e, m):
    e = strip_wrappers(e)
    return e["k"] == "mcall" and e["m"] == m and not e["args"] and path_of(strip_wrappers(e["recv"])) == "self"


def mech_call(n, name):
    if n["k"] != "call":
        return False
    p = path_of(n["f"])
    if not p:
        return False
    segs = strip_generics(p).split("::")
    return segs[-1] == name and (len(segs) == 1 or segs[-2] == "dp_event")


def macro_elems(e):
    if e["k"] == "macro" and e["name"] == "vec" and "args" in e:
        return e["args"]
    if e["k"] == "array":
        return e["elems"]
    return None


def one(nodes, what, fn):
    nodes = list(nodes)
    if len(nodes) != 1:
        raise Anchor("%s: expected exactly one %s, found %d" % (fn.qual, what, len(nodes)))
    return nodes[0]


class Tau:
    """Facts read off PupRelation::tau_thresholding_values once, shared by K1-K3."""

    def __init__(self, src):
        f = self.f = src.one_fn(name="tau_thresholding_values", file=GB, self_ty="PupRelation")
        env = self.env = FnEnv(f)
        ps = env.params
        self.eps = [n for n, t in ps if t == "f64" and n == "epsilon"]
        self.delta = [n for n, t in ps if t == "f64" and n == "delta"]
        ints = [n for n, t in ps if t in ("u64", "usize", "u32", "i64")]
        if len(self.eps) != 1 or len(self.delta) != 1 or len(ints) != 1:
            raise Anchor("tau_thresholding_values: expected parameters (epsilon: f64, delta: f64, <max groups>: u64), found %s" % ps)
        self.eps, self.delta, self.cu = self.eps[0], self.delta[0], ints[0]
        b = f.body
        self.limit = one((n for n in walk(b) if n["k"] == "mcall" and n["m"] == "limit_col_contributions"), "limit_col_contributions call", f) if any(
            n["k"] == "mcall" and n["m"] == "limit_col_contributions" for n in walk(b)
        ) else None
        self.noise = one((n for n in walk(b) if mech_call(n, "gaussian_noise")), "dp_event::gaussian_noise call", f)
        self.tau = one((n for n in walk(b) if mech_call(n, "gaussian_tau")), "dp_event::gaussian_tau call", f)
        self.where = lambda n: "src/%s:%d" % (f.file, n["l"])


def is_cu_f64(e, T):
    e = strip_wrappers(e)
    return e["k"] == "cast" and e["ty"].replace(" ", "") == "f64" and path_of(strip_wrappers(e["e"])) == T.cu and T.env.is_param(T.cu)


# =========================================================================== K1


def k1(rep, src, T):
    rep.rule(
        "K1",
        "parameter agreement in PupRelation::tau_thresholding_values: the max-groups parameter Cu is, unchanged, the cap given to limit_col_contributions (on the privacy-unit column), "
        "`(Cu as f64).sqrt()` the sensitivity of gaussian_noise and `Cu as f64` the third argument of gaussian_tau; gaussian_noise, gaussian_tau and DpEvent::epsilon_delta receive the "
        "function's own epsilon and delta; inside gaussian_tau sigma is gaussian_noise(epsilon, delta, Cu.sqrt()) of its own parameters",
        floor=5,
        necessary="tau is derived for units that touch at most Cu groups with noise of scale sigma(eps, delta, sqrt(Cu)): a different cap, sensitivity or budget at any of the three sites makes the threshold too low for the noise actually applied",
    )
    f, env = T.f, T.env
    fq = f.qual
    # (a) the cap
    if T.limit is None:
        rep.violation("K1", fq + "@cap", "no limit_col_contributions call: privacy units are not limited to Cu groups before counting", f.where())
    else:
        a = T.limit["args"]
        ok_col = len(a) == 2 and is_self_m(a[0], "privacy_unit")
        ok_cap = len(a) == 2 and path_of(strip_wrappers(a[1])) == T.cu and env.is_param(T.cu)
        rep.instance("K1", "cap", {"call": show(T.limit, 120)})
        if not ok_col:
            rep.violation("K1", fq + "@cap/column", "contributions are limited per `%s`, not per privacy unit" % show(a[0] if a else None), T.where(T.limit))
        if not ok_cap:
            rep.violation("K1", fq + "@cap", "the cap passed to limit_col_contributions is `%s`, not the parameter `%s`" % (show(a[1]) if len(a) == 2 else "?", T.cu), T.where(T.limit))
    # (b), (c) epsilon / delta / Cu at the two calibration sites
    for name, call, third in (("gaussian_noise", T.noise, "sqrt"), ("gaussian_tau", T.tau, "plain")):
        a = call["args"]
        if len(a) != 3:
            rep.undecidable("K1", fq + "@" + name, "unexpected arity: %s" % show(call), T.where(call))
            continue
        rep.instance("K1", name, {"call": show(call, 140)})
        for what, e, want in (("epsilon", a[0], T.eps), ("delta", a[1], T.delta)):
            t = norm(e, env)
            if not (t.is_prod() and t.atoms == (want,) and t.num == 1.0 and not t.divs and not t.comps and env.is_param(want)):
                rep.violation("K1", "%s@%s/%s" % (fq, name, what), "%s is calibrated with %s = `%r`, not the function's own `%s`" % (name, what, t, want), T.where(call))
        x = strip_wrappers(a[2])
        if third == "sqrt":
            ok = x["k"] == "mcall" and x["m"] == "sqrt" and not x["args"] and is_cu_f64(x["recv"], T)
            if not ok:
                rep.violation("K1", "%s@%s/sensitivity" % (fq, name), "the noise sensitivity is `%s`, expected `(%s as f64).sqrt()` (the L2 sensitivity of a unit capped to %s groups)" % (show(a[2]), T.cu, T.cu), T.where(call))
        else:
            if not is_cu_f64(x, T):
                rep.violation("K1", "%s@%s/groups" % (fq, name), "gaussian_tau receives `%s` as the number of groups, expected `%s as f64`" % (show(a[2]), T.cu), T.where(call))
    # the event
    evs = [n for n in walk(f.body) if is_call_to(n, "DpEvent::epsilon_delta")]
    for ev in evs:
        rep.instance("K1", "event", {"call": show(ev)})
        for what, e, want in (("epsilon", ev["args"][0], T.eps), ("delta", ev["args"][1], T.delta)):
            t = norm(e, env)
            if not (t.is_prod() and t.atoms == (want,) and t.num >= 1.0 and not t.divs and not t.comps):
                rep.violation("K1", "%s@event/%s" % (fq, what), "the thresholding event records %s = `%r`, not (at least) the function's own `%s`" % (what, t, want), T.where(ev))
    if not evs:
        rep.violation("K1", fq + "@event", "tau_thresholding_values builds no DpEvent::epsilon_delta", f.where())
    # inside gaussian_tau
    g = src.one_fn(name="gaussian_tau", file="differential_privacy/dp_event.rs")
    genv = FnEnv(g)
    gp = [n for n, _ in genv.params]
    inner = [n for n in walk(g.body) if mech_call(n, "gaussian_noise")]
    rep.instance("K1", "gaussian_tau/sigma", {"calls": [show(n) for n in inner]})
    if len(gp) != 3 or len(inner) != 1:
        rep.undecidable("K1", "gaussian_tau@sigma", "expected gaussian_tau(epsilon, delta, groups) to compute its scale with one gaussian_noise call", g.where())
    else:
        a = inner[0]["args"]
        x = strip_wrappers(a[2]) if len(a) == 3 else None
        ok = (
            len(a) == 3
            and path_of(strip_wrappers(a[0])) == gp[0]
            and path_of(strip_wrappers(a[1])) == gp[1]
            and x["k"] == "mcall"
            and x["m"] == "sqrt"
            and path_of(strip_wrappers(x["recv"])) == gp[2]
            and all(genv.is_param(p) for p in gp)
        )
        if not ok:
            rep.violation("K1", "gaussian_tau@sigma", "the scale inside gaussian_tau is `%s`, expected gaussian_noise(%s, %s, %s.sqrt()): tau no longer matches the noise added to the count" % (show(inner[0]), gp[0], gp[1], gp[2]), "src/%s:%d" % (g.file, inner[0]["l"]))


# =========================================================================== K2


def builder_kind(root):
    if root["k"] == "call":
        p = path_of(root["f"]) or ""
        segs = strip_generics(p).split("::")
        if len(segs) >= 2 and segs[-2] in ("Relation", "Reduce", "Map") and segs[-1] in ("reduce", "map", "join", "set", "values", "builder"):
            return {"reduce": "Reduce", "map": "Map", "join": "Join", "set": "Set", "values": "Values"}.get(segs[-1], segs[-2])
    return None


def chain_calls(e):
    """[mcall nodes] of a method chain, innermost first."""
    out = []
    while True:
        if e["k"] == "mcall":
            out.append(e)
            e = e["recv"]
        elif e["k"] == "try":
            e = e["e"]
        else:
            break
    return e, list(reversed(out))


class Lineage:
    def __init__(self):
        self.env = {}
        self.stage_nodes = {}

    def of(self, e):
        e = strip_try(e)
        while e["k"] == "ref" or (e["k"] == "unary" and e["op"] == "*"):
            e = e["e"]
        k = e["k"]
        if k == "path":
            if e["p"] == "self":
                return ("self",)
            return self.env.get(e["p"])
        if k == "call":
            p = strip_generics(path_of(e["f"]) or "")
            if p in ("Ok", "Some") or p.endswith("Relation::from") or p.endswith("DpRelation::new") or p.endswith("PupRelation::try_from"):
                return self.of(e["args"][0]) if e["args"] else None
            return None
        if k == "mcall":
            root, calls = chain_calls(e)
            bk = builder_kind(root)
            if bk is not None:
                inp = [c for c in calls if c["m"] == "input"]
                if len(inp) == 1 and inp[0]["args"]:
                    lin = self.of(inp[0]["args"][0])
                    if lin is None:
                        return None
                    self.stage_nodes[bk] = e
                    return lin + (bk,)
                return None
            lin = self.of(e["recv"])
            if lin is None:
                return None
            if e["m"] in STAGES:
                self.stage_nodes[e["m"]] = e
                return lin + (e["m"],)
            return lin
        return None

    def run(self, body):
        """Sequential lets with shadowing; returns [(return expression, lineage)]."""
        rets = []
        for s in body["stmts"]:
            if s["k"] == "let":
                nm = pat_ident(s["pat"])
                if nm and s.get("init") is not None:
                    lin = self.of(s["init"])
                    if lin is not None:
                        self.env[nm] = lin
                    else:
                        self.env.pop(nm, None)
        t = _tail_expr(body)
        if t is not None:
            rets.append((t, self.of(t)))
        for n in walk(body, into_closures=False):
            if n["k"] == "return" and n.get("e") is not None:
                e = n["e"]
                if e["k"] == "call" and path_of(e["f"]) == "Err":
                    continue
                rets.append((e, self.of(e)))
        return rets


def keep_condition(calls):
    """Selection of a `schema().iter()` chain as (field parameter, keep-condition AST, positive?, mapped expression) for the equivalent forms
    filter_map(|f| if C { None } else { Some(e) }) / filter_map(|f| (C).then_some(e)) / filter(|f| C).map(|f| e); None when there is none."""
    fm = [c for c in calls if c["m"] == "filter_map" and c["args"] and c["args"][0]["k"] == "closure" and len(c["args"][0]["params"]) == 1]
    fl = [c for c in calls if c["m"] == "filter" and c["args"] and c["args"][0]["k"] == "closure" and len(c["args"][0]["params"]) == 1]
    mp = [c for c in calls if c["m"] == "map" and c["args"] and c["args"][0]["k"] == "closure" and len(c["args"][0]["params"]) == 1]
    if len(fm) == 1 and not fl:
        cl = fm[0]["args"][0]
        fp = pat_ident(cl["params"][0])
        b = strip_wrappers(cl["body"])
        while b["k"] == "block" and len(b["stmts"]) == 1 and b["stmts"][0]["k"] == "expr":
            b = strip_wrappers(b["stmts"][0]["e"])
        if b["k"] == "mcall" and b["m"] in ("then_some", "then") and b["args"]:
            return fp, b["recv"], True, b["args"][0]
        if b["k"] == "if" and b.get("else") is not None:
            t, e = _tail_expr(b["then"]), _tail_expr(b["else"]) if b["else"]["k"] == "block" else b["else"]
            if t is not None and e is not None:
                if path_of(t) == "None" and is_call_to(e, "Some"):
                    return fp, b["cond"], False, e["args"][0]
                if path_of(e) == "None" and is_call_to(t, "Some"):
                    return fp, b["cond"], True, t["args"][0]
        return None
    if len(fl) == 1 and not fm and len(mp) <= 1:
        cl = fl[0]["args"][0]
        fp = pat_ident(cl["params"][0]) or (pat_binds(cl["params"][0]) or [None])[0]
        body = cl["body"]
        while body["k"] == "block" and len(body["stmts"]) == 1 and body["stmts"][0]["k"] == "expr":
            body = body["stmts"][0]["e"]
        mapped = None
        if mp:
            mapped = mp[0]["args"][0]["body"]
            mfp = pat_ident(mp[0]["args"][0]["params"][0])
            from .canon import subst

            if calls.index(mp[0]) < calls.index(fl[0]) if (mp[0] in calls and fl[0] in calls) else False:
                # `.map(|f| e(f)).filter(|v| C(v))`: the filter sees the mapped value; as a selection of fields it is C(e(f))
                if mfp and fp:
                    mb = mapped
                    while mb["k"] == "block" and len(mb["stmts"]) == 1 and mb["stmts"][0]["k"] == "expr":
                        mb = mb["stmts"][0]["e"]
                    body = subst(body, {fp: mb})
                    fp = mfp
            elif mfp and fp and mfp != fp:
                mapped = subst(mapped, {mfp: {"k": "path", "p": fp, "segs": [fp], "l": 0}})
        return fp, body, True, mapped
    return None


def keeps(cond, fp, unit, positive=True):
    """Is a field kept when it IS the unit column `unit` (so `fp.name() == self.<unit>()` holds and the equality with the other unit column fails)?
    Three-valued: True / False / None (depends on something else, e.g. all_values())."""

    def ev(e):
        e = strip_wrappers(e)
        k = e["k"]
        if k == "paren":
            return ev(e["e"])
        if k == "unary" and e["op"].strip() == "!":
            v = ev(e["e"])
            return None if v is None else not v
        if k == "binary" and e["op"] in ("&&", "||"):
            a, b = ev(e["lhs"]), ev(e["rhs"])
            if e["op"] == "&&":
                if a is False or b is False:
                    return False
                return True if (a is True and b is True) else None
            if a is True or b is True:
                return True
            return False if (a is False and b is False) else None
        if k == "binary" and e["op"] in ("==", "!="):
            for x, y in ((e["lhs"], e["rhs"]), (e["rhs"], e["lhs"])):
                x = strip_wrappers(x)
                if x["k"] == "mcall" and x["m"] == "name" and path_of(strip_wrappers(x["recv"])) == fp:
                    for m in ("privacy_unit", "privacy_unit_weight"):
                        if is_self_m(y, m):
                            eq = m == unit
                            return eq if e["op"] == "==" else not eq
            return None
        if k == "lit" and e.get("t") == "bool":
            return bool(e["v"])
        return None

    v = ev(cond)
    if v is None:
        return None
    return v if positive else not v


def k2(rep, src, T):
    rep.rule(
        "K2",
        "pipeline order in tau_thresholding_values (def-use chain with shadowing, from `self` to every non-error return): unique(keys + privacy unit) -> limit_col_contributions -> "
        "Reduce whose aggregate named C is count(privacy unit) and whose group-by expressions are the keys -> add_gaussian_noise on column C with the sigma of K1 -> filter_columns on column C -> "
        "filter_fields keeping only keys (C is removed); the same `keys` collection (schema of self minus the privacy-unit columns) feeds unique, the group-by and the released fields",
        floor=7,
        necessary="dropping or reordering a stage releases keys that were not thresholded: counting rows instead of distinct capped units, filtering before the noise, or returning the un-filtered relation",
    )
    f, env = T.f, T.env
    fq = f.qual
    L = Lineage()
    rets = L.run(f.body)
    for e, lin in rets:
        rep.instance("K2", "return@%d" % len(lin or ()), {"returns": show(e, 100), "lineage": list(lin) if lin else None})
        if lin != PIPELINE:
            rep.violation("K2", fq + "@pipeline", "the returned relation is built by %s, expected %s" % (" -> ".join(lin) if lin else "an expression the rule cannot follow (%s)" % show(e, 80), " -> ".join(PIPELINE)), "src/%s:%d" % (f.file, e["l"]))
    if not rets:
        raise Anchor("tau_thresholding_values: no return expression found")
    if any(lin != PIPELINE for _, lin in rets):
        return
    sn = L.stage_nodes
    where = T.where
    # keys / keys+pu
    uq = sn["unique"]
    U = strip_wrappers(uq["args"][0]) if uq["args"] else None
    Uinit = env.init_of(U["p"]) if U is not None and U["k"] == "path" else None
    keys = None
    if Uinit is not None:
        root, calls = chain_calls(Uinit)
        root = strip_wrappers(root)
        ch = [c for c in calls if c["m"] == "chain"]
        if root["k"] == "path" and {c["m"] for c in calls} <= {"iter", "into_iter", "cloned", "copied", "chain", "collect"} and len(ch) == 1:
            a = ch[0]["args"][0] if ch[0]["args"] else None
            if a is not None and a["k"] == "call" and (path_of(a["f"]) or "").split("::")[-1] == "once" and a["args"] and is_self_m(a["args"][0], "privacy_unit"):
                keys = root["p"]
    rep.instance("K2", "unique", {"call": show(uq, 100), "columns": show(Uinit, 140) if Uinit else None, "keys": keys})
    if keys is None:
        rep.violation("K2", fq + "@unique", "unique(..) is not applied to `<keys> chained with the privacy-unit column`: (key, unit) pairs are not deduplicated before counting", where(uq))
        return
    kinit = env.init_of(keys)
    okk = False
    if kinit is not None:
        root, calls = chain_calls(kinit)
        ms = [c["m"] for c in calls]
        kc = keep_condition(calls)
        if path_of(strip_wrappers(root)) == "self" and ms[:2] == ["schema", "iter"] and kc is not None and set(ms) <= {"schema", "iter", "filter_map", "filter", "map", "collect"}:
            fp, cond, positive, mapped = kc
            excl = {m for m in ("privacy_unit", "privacy_unit_weight") if keeps(cond, fp, m, positive) is False}
            is_name = mapped is None or show(strip_wrappers(mapped), 0).replace(" ", "") in ("%s.name()" % fp, "%s.name().to_string()" % fp, "%s.name().into()" % fp)
            okk = "privacy_unit" in excl and is_name
    rep.instance("K2", "keys", {"keys": keys, "definition": show(kinit, 200) if kinit else None})
    if not okk:
        rep.undecidable("K2", fq + "@keys", "`%s` is not `self.schema()` filtered to drop the privacy-unit column" % keys, f.where())
    # the Reduce: count(pu) named C, grouped by the keys
    red = sn["Reduce"]
    _, rc = chain_calls(red)
    wi = [c for c in rc if c["m"] == "with_iter"]
    gi = [c for c in rc if c["m"] == "group_by_iter"]
    C = None
    if len(wi) == 1 and len(gi) == 1 and wi[0]["args"] and gi[0]["args"]:
        A, G = strip_wrappers(wi[0]["args"][0]), strip_wrappers(gi[0]["args"][0])
        Ainit = _first_let(f.body, A["p"]) if A["k"] == "path" else None
        el = macro_elems(Ainit) if Ainit is not None else None
        for x in el or []:
            if x["k"] == "tuple" and len(x["elems"]) == 2:
                v = x["elems"][1]
                if is_call_to(v, "Expr::count") and v["args"] and is_call_to(v["args"][0], "Expr::col") and is_self_m(v["args"][0]["args"][0], "privacy_unit"):
                    C = show(x["elems"][0], 0)
        # group-by expressions pushed once per key
        okg = False
        if G["k"] == "path":
            # `keys.into_iter().for_each(|c| { .. })` or `for c in keys { .. }`: (parameter, body) of the per-key step
            steps = []
            for cl, owner in _closures(f.body):
                if owner["k"] == "mcall" and owner["m"] == "for_each":
                    r, ms = chain_root(owner)
                    if path_of(strip_wrappers(r)) == keys and set(ms) <= {"iter", "into_iter", "for_each", "cloned", "copied"} and len(cl["params"]) == 1:
                        steps.append((cl["params"][0], cl["body"]))
            for lp in find(f.body, "for"):
                r, ms = chain_root(lp["e"]) if lp["e"]["k"] == "mcall" else (lp["e"], [])
                if path_of(strip_wrappers(r)) == keys and set(ms) <= {"iter", "into_iter", "cloned", "copied"}:
                    steps.append((lp["pat"], lp["body"]))
            for cpat, cbody in steps:
                    if True:
                        cl = {"params": [cpat], "body": cbody}
                        cp = pat_ident(cl["params"][0])
                        cenv = {}
                        for s in cl["body"]["stmts"] if cl["body"]["k"] == "block" else []:
                            if s["k"] == "let" and pat_ident(s["pat"]) and s.get("init") is not None:
                                cenv[pat_ident(s["pat"])] = s["init"]
                        for n in walk(cl["body"]):
                            if n["k"] == "mcall" and n["m"] == "push" and path_of(strip_wrappers(n["recv"])) == G["p"] and n["args"]:
                                v = strip_wrappers(n["args"][0])
                                if v["k"] == "path" and v["p"] in cenv:
                                    v = strip_wrappers(cenv[v["p"]])
                                if is_call_to(v, "Expr::col") and v["args"] and path_of(strip_wrappers(v["args"][0])) == cp:
                                    okg = True
        rep.instance("K2", "reduce", {"count_column": C, "group_by_keys": okg, "reduce": show(red, 140)})
        if C is None:
            rep.violation("K2", fq + "@reduce/count", "the Reduce does not aggregate `count(<privacy unit>)` under a named column", where(red))
        if not okg:
            rep.violation("K2", fq + "@reduce/group_by", "the Reduce is not grouped by one `Expr::col(key)` per element of `%s`" % keys, where(red))
    else:
        rep.undecidable("K2", fq + "@reduce", "the Reduce builder is not `.with_iter(aggs).group_by_iter(groups).input(..)`", where(red))
    if C is None:
        return
    # noise on C with the sigma of K1
    ng = sn["add_gaussian_noise"]
    NS = strip_wrappers(ng["args"][0]) if ng["args"] else None
    nsi = env.init_of(NS["p"]) if NS is not None and NS["k"] == "path" else NS
    el = macro_elems(nsi) if nsi is not None else None
    okn = bool(el) and len(el) == 1 and el[0]["k"] == "tuple" and len(el[0]["elems"]) == 2 and show(el[0]["elems"][0], 0) == C and env.resolve(el[0]["elems"][1]) is T.noise
    rep.instance("K2", "noise", {"call": show(ng), "sigmas": show(nsi, 160) if nsi else None})
    if not okn:
        rep.violation("K2", fq + "@noise", "add_gaussian_noise is not applied to exactly the count column `%s` with the sigma computed by gaussian_noise(epsilon, delta, sqrt(Cu))" % C, where(ng))
    # filter on C (slot contents are K3's)
    fc = sn["filter_columns"]
    ent = filter_entry(fc, env)
    rep.instance("K2", "filter", {"call": show(fc), "entry": show(ent, 120) if ent else None})
    if ent is None or show(ent["elems"][0], 0) != C:
        rep.violation("K2", fq + "@filter/column", "filter_columns does not constrain the noisy count column `%s`" % C, where(fc))
    # projection
    ff = sn["filter_fields"]
    okf = False
    if ff["args"] and ff["args"][0]["k"] == "closure":
        b = strip_wrappers(ff["args"][0]["body"])
        if b["k"] == "mcall" and b["m"] == "contains" and path_of(strip_wrappers(b["recv"])) == U["p"]:
            okf = True
    rep.instance("K2", "projection", {"call": show(ff, 100)})
    if not okf:
        rep.violation("K2", fq + "@projection", "the final filter_fields does not keep exactly the key columns (`%s.contains(..)`): the noisy count may be released or other columns kept" % U["p"], where(ff))


def _first_let(body, name):
    for n in walk(body, into_closures=False):
        if n["k"] == "let" and pat_ident(n["pat"]) == name and n.get("init") is not None:
            return n["init"]
    return None


def filter_entry(fc, env):
    """The single `(column, (min, max, values))` entry of the map given to filter_columns."""
    if not fc["args"]:
        return None
    a = env.resolve(fc["args"][0])
    root, calls = chain_calls(a)
    if {c["m"] for c in calls} - {"into_iter", "collect", "iter", "cloned"}:
        return None
    el = macro_elems(strip_wrappers(root))
    if not el or len(el) != 1:
        return None
    x = el[0]
    if x["k"] == "tuple" and len(x["elems"]) == 2 and x["elems"][1]["k"] == "tuple" and len(x["elems"][1]["elems"]) == 3:
        return x
    return None


# =========================================================================== K3

CMPS = ("gt", "gt_eq", "lt", "lt_eq", "eq", "neq", "not_eq")


def k3(rep, src, T):
    rep.rule(
        "K3",
        "threshold direction: in tau_thresholding_values tau (the result of gaussian_tau) is `Some(tau)` in the first slot of the (min, max, values) triple, the other slots are None / empty; "
        "Relation::filter_columns -> Expr::filter passes the triple positionally to Expr::filter_column(name, min, max, values); filter_column turns `min` into the strict `Expr::gt(col(name), val(min))` "
        "(and `max` into `lt`), conjoins with Expr::and, and Relation::filter installs the predicate as the Map's filter",
        floor=6,
        necessary="tau in the max slot, `lt`/`gt_eq` for the lower bound, or `or` instead of `and` releases exactly the rare keys (count <= tau) that thresholding must suppress",
    )
    f, env = T.f, T.env
    fq = f.qual
    fcs = [n for n in walk(f.body) if n["k"] == "mcall" and n["m"] == "filter_columns"]
    if len(fcs) != 1:
        rep.violation("K3", fq + "@filter", "expected one filter_columns call, found %d" % len(fcs), f.where())
        return
    ent = filter_entry(fcs[0], env)
    if ent is None:
        rep.undecidable("K3", fq + "@triple", "the argument of filter_columns is not a one-entry literal map `[(col, (min, max, values))]`", T.where(fcs[0]))
    else:
        lo, hi, vals = ent["elems"][1]["elems"]
        rep.instance("K3", "triple", {"min": show(lo), "max": show(hi), "values": show(vals)})
        ok_lo = False
        if lo["k"] == "call" and path_of(lo["f"]) == "Some" and lo["args"]:
            x = lo["args"][0]
            while x["k"] == "mcall" and x["m"] in ("into", "clone") or (x["k"] == "call" and (path_of(x["f"]) or "").endswith("::from")):
                x = x["recv"] if x["k"] == "mcall" else x["args"][0]
            ok_lo = env.resolve(x) is T.tau
        if not ok_lo:
            rep.violation("K3", fq + "@triple/min", "the lower bound of the count filter is `%s`, expected `Some(<gaussian_tau(..)>)`" % show(lo), T.where(fcs[0]))
        if path_of(hi) != "None":
            rep.violation("K3", fq + "@triple/max", "the count filter has an upper bound `%s`" % show(hi), T.where(fcs[0]))
        ve = macro_elems(vals)
        if ve is None or len(ve) != 0:
            rep.violation("K3", fq + "@triple/values", "the count filter restricts the count to listed values `%s`" % show(vals), T.where(fcs[0]))
    # Relation::filter_columns
    g = src.one_fn(name="filter_columns", file="relation/rewriting.rs", self_ty="Relation")
    genv = FnEnv(g)
    t = _tail_expr(g.body)
    ok = False
    if t is not None and t["k"] == "mcall" and t["m"] == "filter" and path_of(strip_wrappers(t["recv"])) == "self" and len(t["args"]) == 1:
        p = genv.resolve(t["args"][0])
        ok = is_call_to(p, "Expr::filter") and len(p["args"]) == 1 and path_of(strip_wrappers(p["args"][0])) == genv.params[0][0]
    rep.instance("K3", "Relation::filter_columns", {"body": show(g.body, 120)})
    if not ok:
        rep.violation("K3", "Relation::filter_columns@body", "filter_columns is not `self.filter(Expr::filter(columns))`", g.where())
    # Relation::filter
    g = src.one_fn(name="filter", file="relation/rewriting.rs", self_ty="Relation")
    pn = [pat_ident(p["pat"]) for p in g.params if not p.get("self")]
    t = _tail_expr(g.body)
    ok = False
    if t is not None and t["k"] == "mcall":
        root, calls = chain_calls(t)
        fl = [c for c in calls if c["m"] == "filter"]
        inp = [c for c in calls if c["m"] == "input"]
        ok = (
            is_call_to(root, "Relation::map")
            and len(fl) == 1
            and len(fl[0]["args"]) == 1
            and path_of(strip_wrappers(fl[0]["args"][0])) == pn[0]
            and len(inp) == 1
            and path_of(strip_wrappers(inp[0]["args"][0])) == "self"
            and calls[-1]["m"] == "build"
        )
    rep.instance("K3", "Relation::filter", {"body": show(g.body, 140)})
    if not ok:
        rep.violation("K3", "Relation::filter@body", "Relation::filter does not build `Relation::map()...filter(predicate).input(self)`", g.where())
    # Expr::filter: positional hand-over of (min, max, values)
    g = src.one_fn(name="filter", file="expr/mod.rs", self_ty="Expr")
    ok = False
    fcall = [n for n in walk(g.body) if is_call_to(n, "Expr::filter_column", "Self::filter_column")]
    cls = [cl for cl, owner in _closures(g.body) if owner["k"] == "mcall" and owner["m"] in ("filter_map", "map", "flat_map")]
    if len(fcall) == 1 and len(cls) == 1 and contains(cls[0]["body"], fcall[0]) and len(cls[0]["params"]) == 1:
        pat = cls[0]["params"][0]
        if pat["k"] == "tuple" and len(pat["elems"]) == 2 and pat["elems"][1]["k"] == "tuple" and len(pat["elems"][1]["elems"]) == 3:
            order = [pat_ident(pat["elems"][0])] + [pat_ident(x) for x in pat["elems"][1]["elems"]]
            args = [path_of(strip_wrappers(a)) for a in fcall[0]["args"]]
            ok = None not in order and order == args
    t = _tail_expr(g.body)
    ok_and = t is not None and is_call_to(t, "Self::and_iter", "Expr::and_iter")
    rep.instance("K3", "Expr::filter", {"closure": show(cls[0], 140) if cls else None})
    if not ok:
        rep.violation("K3", "Expr::filter@order", "Expr::filter does not pass (name, min, max, values) positionally to Expr::filter_column", g.where())
    if not ok_and:
        rep.violation("K3", "Expr::filter@and", "Expr::filter does not conjoin the column predicates with and_iter", g.where())
    # Expr::and_iter
    g = src.one_fn(name="and_iter", file="expr/mod.rs", self_ty="Expr")
    comb = [n for n in walk(g.body) if n["k"] == "call" and strip_generics(path_of(n["f"]) or "").split("::")[-1] in ("and", "or", "xor")]
    # point-free form: `.reduce(Expr::and)` / `.fold(init, Expr::and)` passes the combinator as a path
    pf = [a for n in walk(g.body) if n["k"] == "mcall" and n["m"] in ("reduce", "fold") for a in n["args"] if a["k"] == "path" and strip_generics(a["p"]).split("::")[-1] in ("and", "or", "xor")]
    comb = comb + [{"k": "call", "f": a, "args": [], "l": a.get("l", 0)} for a in pf]
    rep.instance("K3", "Expr::and_iter", {"combinators": [show(c) for c in comb]})
    if len(comb) != 1 or not is_call_to(comb[0], "Expr::and", "Self::and"):
        rep.violation("K3", "Expr::and_iter@and", "and_iter does not fold with Expr::and", g.where())
    # Expr::filter_column
    from .canon import canon_view

    g = canon_view(src.one_fn(name="filter_column", file="expr/mod.rs", self_ty="Expr"), src, lets=False)  # private helpers (e.g. an extracted `and_with`) are read through
    genv = FnEnv(g)
    ps = [n for n, _ in genv.params]
    if len(ps) != 4:
        raise Anchor("Expr::filter_column: expected (name, min, max, possible_values)")
    col = None
    for nm, init in genv.lets.items():
        i = strip_wrappers(init)
        if is_call_to(i, "Expr::col") and i["args"]:
            r, _ = chain_root(i["args"][0])
            if path_of(strip_wrappers(r)) == ps[0] and genv.init_of(nm) is not None:
                col = nm
    # the bounds are used as received: re-binding `min` / `max` (e.g. filtering out some values) before the `if let` drops thresholds
    from .core import pat_binds as _pb, walk_guards as _wg

    for st in g.body["stmts"]:
        if st["k"] == "let":
            for nm in _pb(st["pat"]):
                if nm in (ps[1], ps[2]):
                    rep.violation("K3", "Expr::filter_column@%s/rebound" % nm, "the `%s` bound is re-bound before use (`let %s = %s`): some thresholds are silently dropped" % (nm, show(st["pat"], 40), show(st.get("init"), 100)), "src/%s:%d" % (g.file, st["l"]))
    for n, guards in _wg(g.body):
        if n["k"] == "if" and n["cond"]["k"] == "letcond" and path_of(strip_wrappers(n["cond"]["e"])) in (ps[1], ps[2]) and any(gd[0] in ("if", "arm") for gd in guards):
            rep.violation("K3", "Expr::filter_column@%s/conditional" % path_of(strip_wrappers(n["cond"]["e"])), "the bound is only applied under another condition", "src/%s:%d" % (g.file, n["l"]))
    want = {1: "gt", 2: "lt"}
    for idx in (1, 2):
        blocks = [n for n in walk(g.body) if n["k"] == "if" and n["cond"]["k"] == "letcond" and path_of(strip_wrappers(n["cond"]["e"])) == ps[idx]]
        key = "Expr::filter_column@%s" % ps[idx]
        if len(blocks) != 1:
            rep.undecidable("K3", key, "expected one `if let Some(m) = %s` block" % ps[idx], g.where())
            continue
        blk = blocks[0]
        bound = [x["name"] for x in walk(blk["cond"]["pat"]) if x["k"] == "ident"]
        cmps = [n for n in walk(blk["then"]) if n["k"] == "call" and strip_generics(path_of(n["f"]) or "").split("::")[-1] in CMPS]
        ors = [n for n in walk(blk["then"]) if n["k"] == "call" and strip_generics(path_of(n["f"]) or "").split("::")[-1] in ("or", "xor", "not")]
        ands = [n for n in walk(blk["then"]) if is_call_to(n, "Expr::and", "Self::and")]
        rep.instance("K3", key, {"bound": ps[idx], "comparison": [show(c) for c in cmps], "combined_with": [show(a) for a in ands]})
        good = False
        if len(cmps) == 1 and len(bound) == 1 and len(cmps[0]["args"]) == 2:
            c = cmps[0]
            op = strip_generics(path_of(c["f"])).split("::")[-1]
            a0, a1 = strip_wrappers(c["args"][0]), strip_wrappers(c["args"][1])
            good = op == want[idx] and path_of(a0) == col and col is not None and is_call_to(a1, "Expr::val") and path_of(strip_wrappers(a1["args"][0])) == bound[0]
        if not good:
            rep.violation(
                "K3",
                key,
                "the `%s` bound is turned into %s, expected the strict `Expr::%s(col(name), val(%s))`" % (ps[idx], ", ".join(show(c) for c in cmps) or "nothing", want[idx], ps[idx]),
                "src/%s:%d" % (g.file, blk["l"]),
            )
        if ors or len(ands) != 1:
            rep.violation("K3", key + "/and", "the `%s` predicate is not conjoined with Expr::and (found %s)" % (ps[idx], ", ".join(show(x, 60) for x in ors + ands) or "nothing"), "src/%s:%d" % (g.file, blk["l"]))
    # the accumulated predicate is what is returned
    t = _tail_expr(g.body)
    if t is None or path_of(t) is None or t["p"] not in genv.assigned:
        rep.undecidable("K3", "Expr::filter_column@return", "filter_column does not return the accumulated predicate variable", g.where())


# =========================================================================== K4


def conjuncts(e):
    e = strip_wrappers(e)
    if e["k"] == "binary" and e["op"] == "&&":
        return conjuncts(e["lhs"]) + conjuncts(e["rhs"])
    return [e]


def k4(rep, src):
    rep.rule(
        "K4",
        "public-branch gate of PupRelation::dp_values: P = the columns of self that are not privacy-unit columns and satisfy Field::all_values(); DpEvent::no_op() is returned only under "
        "`P.len() == self.schema().len() - <number of excluded privacy-unit columns>` with the relation `self.with_public_values(&P)`; every other returned DpRelation either is the result of "
        "tau_thresholding_values itself or pairs the event of a tau_thresholding_values call with `with_public_values(&P).cross_join(<its relation>)`",
        floor=5,
        necessary="returning public values with a no-op event while some key column has no public value set, or labelling the mixed branch no-op, releases private keys without thresholding and without accounting",
    )
    f = src.one_fn(name="dp_values", file=GB, self_ty="PupRelation")
    env = FnEnv(f)
    fq = f.qual
    # P
    P = None
    nexcl = None
    for nm, init in env.lets.items():
        if env.init_of(nm) is None:
            continue
        root, calls = chain_calls(init)
        kc = keep_condition(calls)
        if path_of(strip_wrappers(root)) == "self" and [c["m"] for c in calls][:2] == ["schema", "iter"] and kc is not None and kc[2] is True:
            fp, keepc, _pos, _mapped = kc
            b = {"k": "mcall", "m": "then_some", "recv": keepc, "args": [_mapped] if _mapped is not None else [], "l": init.get("l", 0)}
            if fp:
                cj = conjuncts(b["recv"])
                allv = [c for c in cj if c["k"] == "mcall" and c["m"] == "all_values" and path_of(strip_wrappers(c["recv"])) == fp and not c["args"]]
                ex = set()
                other = []
                for c in cj:
                    if c in allv:
                        continue
                    hit = None
                    if c["k"] == "binary" and c["op"] == "!=":
                        for a, b2 in ((c["lhs"], c["rhs"]), (c["rhs"], c["lhs"])):
                            a = strip_wrappers(a)
                            if a["k"] == "mcall" and a["m"] == "name" and path_of(strip_wrappers(a["recv"])) == fp:
                                for m in ("privacy_unit", "privacy_unit_weight"):
                                    if is_self_m(b2, m):
                                        hit = m
                    if hit:
                        ex.add(hit)
                    else:
                        other.append(c)
                if len(allv) == 1 and not other:
                    P, nexcl = nm, len(ex)
                    rep.instance("K4", "public-columns", {"P": nm, "condition": show(b["recv"], 200), "excluded_unit_columns": sorted(ex)})
    if P is None:
        rep.undecidable("K4", fq + "@public-columns", "cannot find `let P = self.schema().iter().filter_map(|f| (f.name() != <unit columns> && f.all_values()).then_some(..))`", f.where())
        return

    def is_all_public(cond):
        c = env.resolve(cond)
        if c["k"] != "binary" or c["op"] != "==":
            return False
        for a, b in ((c["lhs"], c["rhs"]), (c["rhs"], c["lhs"])):
            a, b = strip_wrappers(a), strip_wrappers(b)
            if a["k"] == "mcall" and a["m"] == "len" and path_of(strip_wrappers(a["recv"])) == P:
                if b["k"] == "binary" and b["op"] == "-" and b["rhs"]["k"] == "lit" and b["rhs"]["t"] == "int" and int(b["rhs"]["v"]) == nexcl:
                    l = strip_wrappers(b["lhs"])
                    if l["k"] == "mcall" and l["m"] == "len" and is_self_m(l["recv"], "schema"):
                        return True
        return False

    def with_public(e):
        """e contains self.with_public_values(&P)"""
        for n in walk(e):
            if n["k"] == "mcall" and n["m"] == "with_public_values" and path_of(strip_wrappers(n["recv"])) == "self" and n["args"] and path_of(strip_wrappers(n["args"][0])) == P:
                return n
        return None

    news = [(n, g) for n, g in walk_guards(f.body) if is_call_to(n, "DpRelation::new")]
    noops = [(n, g) for n, g in walk_guards(f.body) if is_call_to(n, "DpEvent::no_op")]
    taus = [n for n in walk(f.body) if n["k"] == "mcall" and n["m"] == "tau_thresholding_values"]
    for n, g in noops:
        gated = any(x[0] == "if" and x[2] is True and is_all_public(x[1]) for x in g)
        rep.instance("K4", "no_op", {"guards": [("" if x[2] else "!") + show(x[1], 60) for x in g if x[0] == "if"], "gated_by_all_public": gated})
        if not gated:
            rep.violation("K4", fq + "@no_op", "DpEvent::no_op() is returned on a branch that is not guarded by `all key columns have public values` (%s.len() == self.schema().len() - %d)" % (P, nexcl), "src/%s:%d" % (f.file, n["l"]))
    for n, g in news:
        if len(n["args"]) != 2:
            continue
        rel, ev = n["args"]
        where = "src/%s:%d" % (f.file, n["l"])
        if is_call_to(ev, "DpEvent::no_op"):
            wp = with_public(rel)
            rep.instance("K4", "public-branch", {"relation": show(rel, 100)})
            if wp is None or any(x["k"] == "mcall" and x["m"] in ("cross_join", "tau_thresholding_values") for x in walk(rel)):
                rep.violation("K4", fq + "@public-branch", "the no-op branch does not return exactly `self.with_public_values(&%s)`" % P, where)
            continue
        # event from a thresholding call on the same branch
        evn = path_of(strip_wrappers(ev))
        src_let = None
        for s in walk(f.body):
            if s["k"] == "let" and s.get("init") is not None and evn in [x["name"] for x in walk(s["pat"]) if x["k"] == "ident"]:
                src_let = s
        tcall = [t for t in taus if src_let is not None and contains(src_let["init"], t)]
        ok_ev = bool(tcall) and _same_guards(g, _guards_of(f.body, src_let))
        ok_rel = False
        reln = path_of(strip_wrappers(rel))
        rinit = None
        if reln:
            for s in walk(f.body):
                if s["k"] == "let" and pat_ident(s["pat"]) == reln and s.get("init") is not None and s is not src_let:
                    rinit = s["init"]
        if rinit is not None and src_let is not None:
            cj = [x for x in walk(rinit) if x["k"] == "mcall" and x["m"] == "cross_join"]
            thr = [x["name"] for x in walk(src_let["pat"]) if x["k"] == "ident"]
            if len(cj) == 1 and with_public(cj[0]["recv"]) is not None and cj[0]["args"] and path_of(strip_wrappers(cj[0]["args"][0])) in thr and path_of(strip_wrappers(cj[0]["args"][0])) != evn:
                ok_rel = True
        rep.instance("K4", "mixed-branch", {"event": show(ev), "from": show(src_let["init"], 120) if src_let else None, "relation": show(rinit, 120) if rinit else show(rel)})
        if not ok_ev:
            rep.violation("K4", fq + "@mixed/event", "a DpRelation is returned with event `%s` which is not the event of a tau_thresholding_values call on the same branch" % show(ev), where)
        if not ok_rel:
            rep.violation("K4", fq + "@mixed/relation", "the mixed branch does not return `self.with_public_values(&%s).cross_join(<thresholded relation>)`" % P, where)
    # shape of the returns: every leaf of the if-chain is a thresholding call or Ok(DpRelation::new(..))
    t = _tail_expr(f.body)
    leaves = []

    def collect(e):
        e = strip_wrappers(e)
        if e["k"] == "if":
            collect(e["then"])
            if e.get("else") is not None:
                collect(e["else"])
            else:
                leaves.append(None)
        elif e["k"] == "block":
            te = _tail_expr(e)
            if te is None:
                leaves.append(None)
            else:
                collect(te)
        elif e["k"] == "match":
            for a in e["arms"]:
                collect(a["body"])
        else:
            leaves.append(e)

    if t is not None:
        collect(t)
    for lf in leaves:
        kind = None
        if lf is not None:
            x = strip_try(lf)
            if x["k"] == "mcall" and x["m"] == "tau_thresholding_values":
                kind = "thresholding"
            elif is_call_to(x, "Ok") and x["args"] and is_call_to(x["args"][0], "DpRelation::new"):
                kind = "built"
        rep.instance("K4", "leaf", {"returns": show(lf, 100) if lf is not None else None, "kind": kind}, nontrivial=False)
        if kind is None:
            rep.undecidable("K4", fq + "@leaf", "a branch of dp_values returns `%s`: neither a tau_thresholding_values(..) call nor Ok(DpRelation::new(..))" % (show(lf, 80) if lf is not None else "()"), f.where())
    if not taus:
        rep.violation("K4", fq + "@thresholding", "dp_values never calls tau_thresholding_values", f.where())


def _same_guards(g1, g2):
    return len(g1) == len(g2) and all(a[0] == b[0] and a[1] is b[1] and a[2] == b[2] for a, b in zip(g1, g2))


def _guards_of(body, node):
    for n, g in walk_guards(body):
        if n is node:
            return g
    # `let` statements are not expression nodes with 'k' == let at walk_guards level? they are: fall back to the init
    for n, g in walk_guards(body):
        if node.get("init") is not None and n is node["init"]:
            return g
    return ()


# =========================================================================== K5


def k5(rep, src):
    rep.rule(
        "K5",
        "the aggregation sees only released keys: in Reduce::differentially_private the branch that keeps the Reduce unchanged is guarded by `self.group_by().is_empty()`; otherwise the Reduce handed to "
        "differentially_private_aggregates is rebuilt with `.input(self.input().join_with_grouping_values(<relation of differentially_private_group_by>))`; join_with_grouping_values puts the grouping values "
        "on the LEFT of a `left_outer` join, on equality of every grouping-values column, and keeps the input's field names",
        floor=4,
        necessary="aggregating the original input groups by every key present in the data: the DP result would list keys that failed the threshold",
    )
    f = src.one_fn(name="differentially_private", self_ty="Reduce", file="differential_privacy/mod.rs")
    env = FnEnv(f)
    fq = f.qual
    agg = [n for n in walk(f.body) if n["k"] == "mcall" and n["m"] == "differentially_private_aggregates"]
    gcall = [n for n in walk(f.body) if n["k"] == "mcall" and n["m"] == "differentially_private_group_by"]
    if len(agg) != 1 or len(gcall) != 1:
        raise Anchor("Reduce::differentially_private: expected one differentially_private_aggregates and one differentially_private_group_by call")
    agg, gcall = agg[0], gcall[0]
    r = env.resolve(strip_try(agg["recv"]))
    where = "src/%s:%d" % (f.file, agg["l"])
    if r["k"] != "if" or r.get("else") is None:
        rep.violation("K5", fq + "@branch", "the Reduce given to differentially_private_aggregates is `%s`, not a choice on `self.group_by().is_empty()`" % show(r, 80), where)
        return
    c = strip_wrappers(r["cond"])
    ok_c = c["k"] == "mcall" and c["m"] == "is_empty" and is_self_m(c["recv"], "group_by")
    then_t = _tail_expr(r["then"])
    ok_then = then_t is not None and path_of(strip_wrappers(then_t)) == "self"
    rep.instance("K5", "branch", {"cond": show(r["cond"]), "then": show(then_t)})
    if not (ok_c and ok_then):
        rep.violation("K5", fq + "@branch", "the un-joined Reduce is used under `%s` (expected only when `self.group_by().is_empty()`)" % show(r["cond"]), where)
    els = r["else"]
    if not contains(els, gcall):
        rep.violation("K5", fq + "@group_by", "the key release is not computed on the branch with grouping keys", where)
        return
    # names bound from the group-by call
    gl = [s for s in walk(els) if s["k"] == "let" and s.get("init") is not None and contains(s["init"], gcall)]
    gnames = [x["name"] for s in gl for x in walk(s["pat"]) if x["k"] == "ident"]
    jn = [n for n in walk(els) if n["k"] == "mcall" and n["m"] == "join_with_grouping_values"]
    ok_j = False
    jvar = None
    if len(jn) == 1 and jn[0]["args"]:
        root, calls = chain_calls(jn[0])
        ok_recv = path_of(strip_wrappers(root)) == "self" and [c2["m"] for c2 in calls][:1] == ["input"]
        ok_arg = path_of(strip_wrappers(jn[0]["args"][0])) in gnames
        ok_j = ok_recv and ok_arg
        for s in walk(els):
            if s["k"] == "let" and s.get("init") is not None and contains(s["init"], jn[0]):
                jvar = pat_ident(s["pat"])
    rep.instance("K5", "join", {"call": show(jn[0], 120) if jn else None})
    if not ok_j:
        rep.violation("K5", fq + "@join", "the input is not `self.input().join_with_grouping_values(<released keys>)`", where)
    te = _tail_expr(els)
    ok_r = False
    if te is not None:
        b = None
        t2 = strip_wrappers(te)
        if t2["k"] == "path":
            for s in els["stmts"]:
                if s["k"] == "let" and pat_ident(s["pat"]) == t2["p"] and s.get("init") is not None:
                    b = s["init"]
        else:
            b = t2
        if b is not None and b["k"] == "mcall":
            root, calls = chain_calls(b)
            inp = [c2 for c2 in calls if c2["m"] == "input"]
            wi = [c2 for c2 in calls if c2["m"] == "with" and c2["args"] and path_of(strip_wrappers(c2["args"][0])) == "self"]
            ok_r = len(inp) == 1 and inp[0]["args"] and jvar is not None and path_of(strip_wrappers(inp[0]["args"][0])) == jvar and len(wi) == 1 and calls[-1]["m"] == "build"
    rep.instance("K5", "rebuilt-reduce", {"tail": show(te, 60) if te else None, "ok": ok_r})
    if not ok_r:
        rep.violation("K5", fq + "@rebuilt", "the Reduce of the grouped branch is not rebuilt as `Reduce::builder().with(self).input(<join with the released keys>).build()`", where)
    # join_with_grouping_values
    g = src.one_fn(name="join_with_grouping_values", file=GB, self_ty="Relation")
    genv = FnEnv(g)
    gp = [n for n, _ in genv.params]
    jb = [n for n in walk(g.body) if n["k"] == "mcall" and n["m"] == "build" and builder_kind(chain_calls(n)[0]) == "Join"]
    if len(jb) != 1 or len(gp) != 1:
        rep.undecidable("K5", "Relation::join_with_grouping_values@join", "expected one Relation::join() builder", g.where())
        return
    root, calls = chain_calls(jb[0])
    by = {}
    for c2 in calls:
        by.setdefault(c2["m"], []).append(c2)
    kinds = [m for m in by if m in ("left_outer", "right_outer", "inner", "full_outer", "cross")]

    def side(m):
        if m in by and by[m][0]["args"]:
            return path_of(genv.resolve(by[m][0]["args"][0]))
        return None

    left, right = side("left"), side("right")
    on_ok = False
    if "on_iter" in by and by["on_iter"][0]["args"]:
        on = genv.resolve(by["on_iter"][0]["args"][0])
        r0, oc = chain_calls(on)
        mp = [c2 for c2 in oc if c2["m"] == "map" and c2["args"] and c2["args"][0]["k"] == "closure"]
        if path_of(genv.resolve(r0)) == left and [c2["m"] for c2 in oc][:2] == ["schema", "iter"] and len(mp) == 1:
            cb = strip_wrappers(mp[0]["args"][0]["body"])
            if is_call_to(cb, "Expr::eq") and len(cb["args"]) == 2:
                s0, s1 = show(cb["args"][0], 0), show(cb["args"][1], 0)
                on_ok = "Join::left_name()" in s0 + s1 and "Join::right_name()" in s0 + s1 and all(is_call_to(a, "Expr::qcol") for a in cb["args"])
    rep.instance("K5", "join_with_grouping_values", {"kind": kinds, "left": left, "right": right, "on_every_left_column": on_ok})
    where = "src/%s:%d" % (g.file, jb[0]["l"])
    if kinds != ["left_outer"] or left != gp[0] or right != "self":
        rep.violation("K5", "Relation::join_with_grouping_values@sides", "expected `left_outer` with the grouping values on the left and the tracked input on the right; found %s with left=%s right=%s" % (kinds, left, right), where)
    if not on_ok:
        rep.violation("K5", "Relation::join_with_grouping_values@on", "the join is not on equality of every grouping-values column between left and right", where)
    # the surviving key columns are the released ones: the left side keeps its own names, colliding names of the input are the ones renamed
    def names_arg(m):
        if m in by and by[m][0]["args"]:
            a = by[m][0]["args"][0]
            while a["k"] == "mcall" and a["m"] in ("clone", "to_vec", "into_iter", "iter", "cloned") or a["k"] == "ref":
                a = a["recv"] if a["k"] == "mcall" else a["e"]
            return genv.resolve(a)
        return None

    def identity_names_of(e, who):
        """e == <who>.schema().iter().map(|f| f.name().to_string()).collect()"""
        if e is None or e["k"] != "mcall":
            return False
        r0, cs = chain_calls(e)
        ms = [c2["m"] for c2 in cs]
        mp = [c2 for c2 in cs if c2["m"] == "map" and c2["args"] and c2["args"][0]["k"] == "closure"]
        if path_of(genv.resolve(r0)) != who or ms[:2] != ["schema", "iter"] or len(mp) != 1 or any(m not in ("schema", "iter", "map", "collect", "cloned") for m in ms):
            return False
        cl = mp[0]["args"][0]
        ps = pat_binds(cl["params"][0]) if cl["params"] else []
        body = show(strip_wrappers(cl["body"]), 0).replace(" ", "")
        return bool(ps) and body in ("%s.name().to_string()" % ps[0], "%s.name().into()" % ps[0], "%s.name().to_owned()" % ps[0], "String::from(%s.name())" % ps[0])

    ln, rn = names_arg("left_names"), names_arg("right_names")
    ok_left = identity_names_of(ln, left)
    ff = [n for n in walk(g.body) if n["k"] == "mcall" and n["m"] == "filter_fields"]
    kept = None
    if len(ff) == 1 and ff[0]["args"] and ff[0]["args"][0]["k"] == "closure":
        for c2 in find(ff[0]["args"][0]["body"], "mcall"):
            if c2["m"] == "contains":
                kept = genv.resolve(c2["recv"])
    ok_kept = identity_names_of(kept, right)
    rep.instance("K5", "join_with_grouping_values@names", {"left_names": show(ln, 100), "right_names": show(rn, 100), "kept": show(kept, 100), "left_keeps_its_names": ok_left, "kept_are_input_names": ok_kept})
    if not ok_left:
        rep.violation("K5", "Relation::join_with_grouping_values@names", "the released grouping values (left) do not keep their own column names (`.left_names(%s)`): the key columns that survive the final projection are read from the tracked input, i.e. exactly the keys present in the data" % show(ln, 80), where)
    if not ok_kept:
        rep.violation("K5", "Relation::join_with_grouping_values@kept", "the final projection does not keep the input's field names: %s" % show(kept, 80), where)


# =========================================================================== run


def _num(e):
    if e["k"] == "lit" and e["t"] in ("int", "float"):
        try:
            return float(e["v"].replace("_", ""))
        except ValueError:
            return None
    return None


def _binop(e, op):
    if e["k"] == "binary" and e["op"] == op:
        return e["lhs"], e["rhs"]
    return None


def k6(rep, src):
    """tau = 1 + sigma(eps, delta, sqrt(Cu)) * Phi^-1((1 - delta)^(1/Cu))   (closed term in dp_event.rs)"""
    from .flow import Taint

    rep.rule(
        "K6",
        "the threshold formula of dp_event::gaussian_tau is 1 + scale * Normal(0,1).inverse_cdf((1 - delta).powf(1 / Cu)) with scale = gaussian_noise(epsilon, delta, sqrt(Cu)) (term shape, + and * commutative)",
        floor=1,
        necessary="any smaller quantile (e.g. 1 - delta^(1/Cu)) gives a tau below the one the (epsilon, delta) share requires: a key held by one unit is released with probability far above delta",
    )
    f = src.one_fn(name="gaussian_tau", file="differential_privacy/dp_event.rs")
    ps = [p["pat"]["name"] for p in f.params if p["pat"]["k"] == "ident"]
    if len(ps) != 3:
        rep.undecidable("K6", "gaussian_tau@params", "expected (epsilon, delta, max_privacy_unit_groups)", f.where())
        return
    eps, delta, cu = ps
    lets = {}
    for st in f.body["stmts"]:
        if st["k"] == "let" and st["pat"]["k"] == "ident" and st.get("init") is not None:
            lets[st["pat"]["name"]] = st["init"]
    tail = f.body["stmts"][-1]["e"] if f.body["stmts"] and f.body["stmts"][-1]["k"] == "expr" and not f.body["stmts"][-1].get("semi") else None
    key = "dp_event::gaussian_tau"
    problems = []

    def resolve(e):
        while e["k"] == "path" and len(e["segs"]) == 1 and e["segs"][0] in lets:
            e = lets[e["segs"][0]]
        return e

    def is_param(e, nm):
        e = resolve(e)
        return e["k"] == "path" and e["segs"] == [nm]

    quant = None
    scale = None
    if tail is None:
        problems.append("no tail expression")
    else:
        pm = _binop(tail, "+")
        if not pm:
            problems.append("tau is not of the form 1 + scale * quantile")
        else:
            a, b = pm
            one, prod = (a, b) if _num(a) is not None else (b, a)
            if _num(one) != 1.0:
                problems.append("the additive constant is %s, expected 1" % show(one))
            mm = _binop(resolve(prod), "*")
            if not mm:
                problems.append("the second summand is not scale * quantile")
            else:
                x, y = resolve(mm[0]), resolve(mm[1])
                for u, v in ((x, y), (y, x)):
                    if u["k"] == "mcall" and u["m"] == "inverse_cdf":
                        quant, scale = u, v
                if quant is None:
                    problems.append("no inverse_cdf factor")
    if quant is not None:
        arg = resolve(quant["args"][0])
        okq = False
        if arg["k"] == "mcall" and arg["m"] == "powf" and len(arg["args"]) == 1:
            base = _binop(resolve(arg["recv"]), "-")
            ex = _binop(resolve(arg["args"][0]), "/")
            okq = bool(base and _num(base[0]) == 1.0 and is_param(base[1], delta) and ex and _num(ex[0]) == 1.0 and is_param(ex[1], cu))
        if not okq:
            problems.append("the quantile is `%s`, expected (1 - %s).powf(1 / %s)" % (show(arg, 120), delta, cu))
        dist = resolve(quant["recv"])
        okd = is_call_to(dist if dist["k"] == "call" else (dist["recv"] if dist["k"] == "mcall" else dist), "Normal::new")
        if okd:
            c = dist if dist["k"] == "call" else dist["recv"]
            okd = len(c["args"]) == 2 and _num(c["args"][0]) == 0.0 and _num(c["args"][1]) == 1.0
        if not okd:
            problems.append("the quantile is not taken from Normal::new(0, 1): %s" % show(dist, 80))
        sc = resolve(scale)
        oks = is_call_to(sc, "gaussian_noise") and len(sc["args"]) == 3 and is_param(sc["args"][0], eps) and is_param(sc["args"][1], delta)
        if oks:
            third = resolve(sc["args"][2])
            oks = third["k"] == "mcall" and third["m"] == "sqrt" and is_param(third["recv"], cu)
        if not oks:
            problems.append("scale is `%s`, expected gaussian_noise(%s, %s, %s.sqrt())" % (show(sc, 120), eps, delta, cu))
    rep.instance("K6", key, {"tau": show(tail, 200), "scale": show(lets.get("scale"), 120) if "scale" in lets else None, "problems": problems})
    for p in problems:
        rep.violation("K6", key, p, f.where())


PROJECTING = {"with", "with_iter", "filter_fields_with", "map_with", "rename_with", "with_group_by", "group_by", "group_by_iter"}
FILTERING = {"filter", "filter_iter"}
EMPTY_ROOTS = ("Relation::map", "Map::builder", "MapBuilder::new", "MapBuilder::default", "Relation::reduce", "Reduce::builder")



def k8(rep, src):
    """The relation-level noise step really adds the noise it is given."""
    rep.rule(
        "K8",
        "relation/rewriting.rs Relation::add_gaussian_noise / add_clipped_gaussian_noise(self, name_sigmas): a column listed in name_sigmas is projected through "
        "`<expression of the column>.add_gaussian_noise(<its sigma, looked up in name_sigmas>)`; every branch taken for a listed column (`contains_key` / `get`) contains that call",
        floor=2,
        necessary="tau-thresholding releases a key when the NOISY count of its units exceeds tau: if the listed column is passed through unchanged the released key set is a deterministic function of the "
        "protected rows while the (epsilon, delta) event of the step is still reported",
    )
    for name in ("add_gaussian_noise", "add_clipped_gaussian_noise"):
        fs = [f for f in src.find_fns(name=name, file="relation/rewriting.rs") if (f.self_ty or "") == "Relation" and f.body and not f.test]
        key = "Relation::" + name
        if len(fs) != 1:
            rep.undecidable("K8", key, "expected one Relation::%s, found %d" % (name, len(fs)), "src/relation/rewriting.rs")
            continue
        f = fs[0]
        pn = [p["pat"]["name"] for p in f.params if not p.get("self") and p["pat"]["k"] == "ident"]
        maps = set(pn)
        for l in find(f.body, "let"):
            if l.get("init") is not None and any(x["k"] == "path" and x["segs"][0] in maps for x in walk(l["init"])):
                maps |= set(pat_binds(l["pat"]))
        for _round in range(3):  # values read out of the map are its sigmas: `if let Some(sigma) = map.get(name)`, `match map.get(name) { Some(sigma) => .. }`, then `let sigma = *sigma;`
            for n in find(f.body, "if"):
                if n["cond"]["k"] == "letcond" and any(x["k"] == "path" and x["segs"][0] in maps for x in walk(n["cond"]["e"])):
                    maps |= set(pat_binds(n["cond"]["pat"]))
            for m_ in find(f.body, "match"):
                if any(x["k"] == "path" and x["segs"][0] in maps for x in walk(m_["e"])):
                    for a in m_["arms"]:
                        maps |= set(pat_binds(a["pat"]))
            for l in find(f.body, "let"):
                if l.get("init") is not None and any(x["k"] == "path" and x["segs"][0] in maps for x in walk(l["init"])):
                    maps |= set(pat_binds(l["pat"]))
        calls = [m for m in find(f.body, "mcall") if m["m"] == "add_gaussian_noise" and len(m["args"]) == 1 and path_of(m["recv"]) != "self"]
        good = [m for m in calls if any(x["k"] == "path" and x["segs"][0] in maps for x in walk(m["args"][0]))]
        # branches selected by membership in the list (with the statements that follow an early `return` of the other case)
        listed_branches = []

        def diverges(blk):
            return blk is not None and blk["k"] == "block" and blk["stmts"] and blk["stmts"][-1]["k"] == "expr" and blk["stmts"][-1]["e"]["k"] in ("return", "continue", "break")

        def on_map(e, meths):
            return any(x["k"] == "mcall" and x["m"] in meths and path_of(x["recv"]) in maps for x in walk(e))

        for blk in find(f.body, "block"):
            for i, st in enumerate(blk["stmts"]):
                rest = {"k": "block", "l": st.get("l", 0), "stmts": blk["stmts"][i + 1 :]}
                e = st.get("e") if st["k"] == "expr" else (st.get("init") if st["k"] == "let" else None)
                if not isinstance(e, dict):
                    continue
                if e["k"] == "if":
                    c = e["cond"]
                    if c["k"] == "letcond":
                        if on_map(c["e"], ("get", "get_key_value")) and c["pat"]["k"] == "tuplestruct" and c["pat"]["path"]["segs"][-1] == "Some":
                            listed_branches.append(e["then"])
                    elif c["k"] == "unary" and c["op"].strip() == "!" and on_map(c["e"], ("contains_key", "contains")):
                        if e.get("else") is not None:
                            listed_branches.append(e["else"])
                        elif diverges(e["then"]):
                            listed_branches.append(rest)
                    elif on_map(c, ("contains_key", "contains")):
                        listed_branches.append(e["then"])
                elif e["k"] == "match" and on_map(e["e"], ("get", "get_key_value")):
                    some = [a for a in e["arms"] if a["pat"]["k"] == "tuplestruct" and a["pat"]["path"]["segs"][-1] == "Some"]
                    none = [a for a in e["arms"] if a not in some]
                    if st["k"] == "let" and some and all(a["body"]["k"] in ("return", "continue", "break") or diverges(a["body"]) for a in none):
                        listed_branches.append({"k": "block", "l": st.get("l", 0), "stmts": [{"k": "expr", "l": 0, "e": some[0]["body"], "semi": True}] + rest["stmts"]})
                    else:
                        listed_branches += [a["body"] for a in some]
        for m_ in find(f.body, "match"):  # a match in value position (not a statement of a block)
            if on_map(m_["e"], ("get", "get_key_value")) and not any(m_ is (st.get("e") if st["k"] == "expr" else st.get("init")) for blk in find(f.body, "block") for st in blk["stmts"]):
                listed_branches += [a["body"] for a in m_["arms"] if a["pat"]["k"] == "tuplestruct" and a["pat"]["path"]["segs"][-1] == "Some"]
        bare = [b for b in listed_branches if not any(x is c_ for c_ in good for x in walk(b))]
        rep.instance("K8", key, {"fn": name, "noise_calls": len(good), "branches_for_listed_columns": len(listed_branches), "without_noise": len(bare)})
        if not good:
            rep.violation("K8", key, "Relation::%s never applies `.add_gaussian_noise(<sigma of the column>)` to a column: the listed columns pass through unchanged" % name, f.where())
        elif bare:
            rep.violation("K8", key, "a branch of Relation::%s taken for a column listed in `%s` does not add the noise: %s" % (name, pn[0] if pn else "name_sigmas", show(bare[0], 90)), f.where())
        elif not listed_branches:
            rep.undecidable("K8", key, "cannot find the branch taken for the listed columns (no `contains_key` / `get` on `%s`)" % (pn[0] if pn else "name_sigmas"), f.where())


def k7(rep, src):
    """The cap itself: Relation::limit_col_contributions ranks the rows of a unit by one random draw and keeps the first `max`."""
    rep.rule(
        "K7",
        "Relation::limit_col_contributions(column, max): the relation (with ONE random column added) is joined with ITSELF (`right` is `left.clone()` / the same value) on equality of `column` and "
        "`left.random <= right.random`; the rank is count(..) per row of the left side (grouped by every input column); the result keeps the rows whose rank is `<= max` (the parameter, unchanged)",
        floor=4,
        necessary="the count is a rank only if both sides carry the same draw: with a second independent draw every row of a unit can have rank 1, so a unit is no longer limited to max groups while "
        "noise and tau stay calibrated for that limit",
    )
    f = src.one_fn(name="limit_col_contributions", file="relation/rewriting.rs", self_ty="Relation")
    key = "Relation::limit_col_contributions"
    ps = [p["pat"]["name"] for p in f.params if not p.get("self") and p["pat"]["k"] == "ident"]
    if len(ps) != 2:
        raise Anchor("limit_col_contributions(self, column, max_contributions) signature changed")
    colp, maxp = ps
    lets = {l["pat"]["name"]: l["init"] for l in find(f.body, "let") if l["pat"]["k"] == "ident" and l.get("init") is not None}
    lets.update({l["pat"]["pat"]["name"]: l["init"] for l in find(f.body, "let") if l["pat"]["k"] == "typed" and l["pat"]["pat"]["k"] == "ident" and l.get("init") is not None})

    def resolve(e, depth=0):
        while e["k"] in ("ref", "paren"):
            e = e["e"]
        if e["k"] == "mcall" and e["m"] in ("clone", "to_owned") and not e["args"]:
            return resolve(e["recv"], depth)
        if e["k"] == "path" and len(e["segs"]) == 1 and e["segs"][0] in lets and depth < 5:
            return resolve(lets[e["segs"][0]], depth + 1)
        return e

    joins = [m for m in find(f.body, "mcall") if m["m"] == "build" and any(is_call_to(x, "Relation::join") for x in walk(m))]
    if len(joins) != 1:
        rep.undecidable("K7", key, "expected one Relation::join() .. .build() chain, found %d" % len(joins), f.where())
        return
    root, calls = chain_calls(joins[0])
    byname = {}
    for c in calls:
        byname.setdefault(c["m"], []).append(c)
    L, R = byname.get("left", []), byname.get("right", [])
    same = False
    if len(L) == 1 and len(R) == 1:
        a, b = resolve(L[0]["args"][0]), resolve(R[0]["args"][0])
        same = show(a, 0) == show(b, 0) and a is b or (path_of(strip_wrappers(L[0]["args"][0])) is not None and show(a, 0) == show(b, 0) and _same_origin(L[0]["args"][0], R[0]["args"][0], lets))
    rep.instance("K7", key + "@self-join", {"left": show(L[0]["args"][0], 60) if L else None, "right": show(R[0]["args"][0], 60) if R else None, "same_relation": bool(same)})
    if not same:
        rep.violation("K7", key + "@self-join", "the two sides of the ranking join are not the same relation value (each would carry its own random draw): left = %s, right = %s" % (show(resolve(L[0]["args"][0]), 80) if L else "?", show(resolve(R[0]["args"][0]), 80) if R else "?"), f.where())
    rnd = [c for c in find(f.body, "call") if is_call_to(c, "Expr::random")]
    rep.instance("K7", key + "@draws", {"random_columns": len(rnd)})
    if len(rnd) != 1:
        rep.violation("K7", key + "@draws", "expected one Expr::random(..) column, found %d" % len(rnd), f.where())
    # ON: eq(column, column) and lt_eq(random, random), left against right
    conds = [a for nm in ("on", "and") for c in byname.get(nm, []) for a in c["args"]]
    txt = " ".join(show(resolve(c), 0).replace(" ", "") for c in conds)
    ok_eq = ("Expr::eq(Expr::qcol(Join::left_name(),%s),Expr::qcol(Join::right_name(),%s))" % (colp, colp)) in txt or ("Expr::eq(Expr::qcol(Join::right_name(),%s),Expr::qcol(Join::left_name(),%s))" % (colp, colp)) in txt
    rc = [n for n, v in lets.items() if v["k"] == "lit" and v.get("t") == "str" and "RANDOM" in str(v.get("v", ""))]
    rcol = rc[0] if rc else "random_col"
    ok_rank = ("Expr::lt_eq(Expr::qcol(Join::left_name(),%s),Expr::qcol(Join::right_name(),%s))" % (rcol, rcol)) in txt or ("Expr::gt_eq(Expr::qcol(Join::right_name(),%s),Expr::qcol(Join::left_name(),%s))" % (rcol, rcol)) in txt
    rep.instance("K7", key + "@on", {"conditions": txt[:240], "same_unit": ok_eq, "rank_order": ok_rank})
    if not ok_eq or not ok_rank:
        rep.violation("K7", key + "@on", "the ranking join is not ON left.%s = right.%s AND left.%s <= right.%s: %s" % (colp, colp, rcol, rcol, txt[:200]), f.where())
    # the final filter: rank <= max
    fl = [c for c in find(f.body, "mcall") if c["m"] == "filter" and c["args"] and is_call_to(resolve(c["args"][0]), "Expr::lt_eq", "Expr::lt")]  # the predicate may be a named local (`let within_bound = Expr::lt_eq(..)`)
    okf = False
    if len(fl) == 1:
        a = resolve(fl[0]["args"][0])
        okf = is_call_to(a, "Expr::lt_eq") and len(a["args"]) == 2 and is_call_to(a["args"][0], "Expr::col") and maxp in {y["segs"][0] for y in walk(a["args"][1]) if y["k"] == "path"} and not [y for y in walk(a["args"][1]) if y["k"] == "binary"]
    rep.instance("K7", key + "@filter", {"filter": show(resolve(fl[0]["args"][0]), 120) if fl else None, "rank_at_most_max": okf})
    if not okf:
        rep.violation("K7", key + "@filter", "the result is not filtered by `rank <= %s`: %s" % (maxp, show(resolve(fl[0]["args"][0]), 120) if fl else "no filter"), f.where())


def _same_origin(a, b, lets):
    """`left` / `left.clone()` / a local initialised with `left.clone()`: the same relation value"""

    def root(e, depth=0):
        while e["k"] in ("ref", "paren"):
            e = e["e"]
        if e["k"] == "mcall" and e["m"] in ("clone", "to_owned") and not e["args"]:
            return root(e["recv"], depth)
        if e["k"] == "path" and len(e["segs"]) == 1:
            nm = e["segs"][0]
            init = lets.get(nm)
            if init is not None and depth < 5:
                r = root(init, depth + 1)
                if r is not None and r != ("expr", id(init)):
                    return r if isinstance(r, str) else nm
            return nm
        return ("expr", id(e))

    ra, rb = root(a), root(b)
    return isinstance(ra, str) and ra == rb


def b4(rep, src, rid="B4"):
    """Reduce re-builders keep the GROUP BY of the Reduce they start from."""
    rep.rule(
        rid,
        "relation/builder.rs: every function that takes a Reduce apart (`let Reduce { .., group_by, .. } = reduce`) to rebuild it hands the grouping keys to the builder: the bound name reaches a "
        "`.group_by_iter(..)` / `.group_by(..)` call (directly, through `fold(builder, |b, g| b.group_by(g))`, a `for` loop or a private helper), outside any `if` / `match`",
        floor=3,
        necessary="a Reduce rebuilt without its grouping keys is one aggregation over the whole input: `rename_fields` of `SELECT a FROM t GROUP BY a` renders as `SELECT a AS key FROM t` while the schema "
        "still declares `key` UNIQUE (it is the single First(..) column), and every aggregate of the rewritten query is computed over all groups at once",
    )
    BF = "relation/builder.rs"
    n = 0
    for f in src.fns:
        if f.file != BF or f.test or not f.body:
            continue
        for l in find(f.body, "let"):
            pt = l["pat"]
            if pt["k"] != "struct" or pt["path"]["segs"][-1] != "Reduce":
                continue
            fld = [x for x in pt.get("fields", []) if x["name"] == "group_by"]
            key = "%s@group_by" % f.qual
            n += 1
            bound = None
            if fld:
                sub = fld[0].get("pat")
                bs = pat_binds(sub) if sub is not None else ["group_by"]
                bound = bs[0] if bs else None
            derived = {bound} if bound else set()
            for l2 in find(f.body, "let"):  # `let keys = group_by.into_iter();`
                if l2 is not l and l2.get("init") is not None and any(x["k"] == "path" and x["segs"][0] in derived for x in walk(l2["init"])):
                    derived |= set(pat_binds(l2["pat"]))
            hits = []
            for x, guards in walk_guards(f.body):
                if x["k"] != "mcall":
                    continue
                uses = lambda e: any(y["k"] == "path" and len(y["segs"]) == 1 and y["segs"][0] in derived for y in walk(e))
                ok = False
                if x["m"] in ("group_by_iter", "group_by") and x["args"] and uses(x["args"][0]):
                    ok = True
                if x["m"] in ("fold", "for_each") and uses(x["recv"]) and x["args"] and x["args"][-1]["k"] == "closure" and any(y["k"] == "mcall" and y["m"] in ("group_by", "group_by_iter") for y in walk(x["args"][-1]["body"])):
                    ok = True
                if ok:
                    hits.append((x, [g for g in guards if g[0] in ("if", "arm")]))
            for lp in find(f.body, "for"):
                if any(y["k"] == "path" and len(y["segs"]) == 1 and y["segs"][0] in derived for y in walk(lp["e"])) and any(y["k"] == "mcall" and y["m"] in ("group_by", "group_by_iter") for y in walk(lp["body"])):
                    hits.append((lp, []))
            uncond = [h for h, g in hits if not g]
            rep.instance(rid, key, {"fn": f.qual, "group_by_bound_as": bound, "handed_to_the_builder": len(hits), "unconditionally": len(uncond)})
            if not uncond:
                why = "is not bound (`group_by: _` / `..`)" if not bound else ("is handed to the builder only under a condition" if hits else "never reaches `.group_by(..)` / `.group_by_iter(..)`")
                rep.violation(rid, key, "%s takes a Reduce apart and its `group_by` %s: the rebuilt Reduce has lost its GROUP BY" % (f.qual, why), "src/%s:%d" % (BF, l["l"]))
    if n == 0:
        rep.undecidable(rid, "builder.rs@Reduce", "no function of relation/builder.rs destructures a Reduce", "src/" + BF)


def b3(rep, src, rid="B3"):
    """Map re-builders keep the clauses of the Map they start from."""
    rep.rule(
        rid,
        "relation/builder.rs: every function that takes a Map apart (`let Map {name, projection, filter, order_by, limit, offset, ..} = map`) to rebuild it re-applies each of the clauses "
        "filter / order_by / limit / offset unconditionally: `<clause>.into_iter().fold(builder, |b, v| b.<clause>(..v..))` with nothing between `into_iter()` and `fold` (directly, or in a private "
        "helper of the file the clause is handed to as an argument), or (filter_with) the old filter conjoined with the new predicate and handed to `.filter(..)`",
        floor=16,
        necessary="tau_thresholding_values ends with filter_columns(count > tau) followed by filter_fields(..), which rebuilds the Map through filter_fields_with: a re-builder that drops or conditions the "
        "filter releases every key; the same re-builders carry the WHERE / ORDER BY / LIMIT of user queries through the rewritings",
    )
    CL = ("filter", "order_by", "limit", "offset")
    BF = "relation/builder.rs"

    def chains_on(stmts, var):
        uses = []
        for st in stmts:
            for x in walk(st):
                if x["k"] == "mcall":
                    r, chain = x, []
                    while r["k"] == "mcall":
                        chain.insert(0, r)
                        r = r["recv"]
                    if path_of(r) == var and chain:
                        uses.append(chain)
        return [c for c in uses if not any(len(o) > len(c) and o[: len(c)] == c for o in uses)]

    def reapplied(stmts, var, cl, depth=0):
        """-> (ok, how, uses)"""
        best = chains_on(stmts, var)
        for c in best:
            ms = [m["m"] for m in c]
            if ms in (["into_iter", "fold"], ["iter", "fold"]) and len(c[-1]["args"]) == 2 and c[-1]["args"][1]["k"] == "closure":
                clo = c[-1]["args"][1]
                b = clo["body"]
                while b["k"] == "block" and len(b["stmts"]) == 1 and b["stmts"][0]["k"] == "expr":
                    b = b["stmts"][0]["e"]
                ps = clo["params"]
                elem = set(pat_binds(ps[1])) if len(ps) == 2 else set()  # `|b, o|` or a destructuring `|b, OrderBy { expr, asc }|`
                if b["k"] == "mcall" and b["m"] == cl and len(ps) == 2 and path_of(b["recv"]) == ps[0].get("name") and any(y["k"] == "path" and y["segs"][0] in elem for a in b["args"] for y in walk(a)):
                    return True, "into_iter().fold", best
        # statement forms on a mutable builder: `if let Some(v) = X { b = b.X(v) }` (no else, or an else that leaves b alone) / `for v in X { b = b.X(..v..) }`
        for st in stmts:
            for x in walk(st):
                if x["k"] == "if" and x["cond"]["k"] == "letcond" and path_of(x["cond"]["e"]) == var and x["cond"]["pat"]["k"] == "tuplestruct" and x["cond"]["pat"]["path"]["segs"][-1] == "Some":
                    vs = list(pat_binds(x["cond"]["pat"]))
                    calls = [m for m in find(x["then"], "mcall") if m["m"] == cl and any(y["k"] == "path" and y["segs"][0] in vs for a in m["args"] for y in walk(a))]
                    other = x.get("else")
                    if calls and (other is None or not list(find(other, "mcall"))):
                        return True, "if let Some(v) = clause { b = b.clause(v) }", best
                if x["k"] == "for" and var in {y["segs"][0] for y in walk(x["e"]) if y["k"] == "path"} and not [m for m in find(x["e"], "mcall") if m["m"] not in ("into_iter", "iter")]:
                    vs = list(pat_binds(x["pat"]))
                    if [m for m in find(x["body"], "mcall") if m["m"] == cl and any(y["k"] == "path" and y["segs"][0] in vs for a in m["args"] for y in walk(a))]:
                        return True, "for v in clause { b = b.clause(v) }", best
                if x["k"] == "match" and path_of(x["e"]) == var and len(x["arms"]) == 2:
                    some = [a for a in x["arms"] if a["pat"]["k"] == "tuplestruct" and a["pat"]["path"]["segs"][-1] == "Some"]
                    none = [a for a in x["arms"] if a not in some]
                    if len(some) == 1 and not some[0].get("guard") and not list(find(none[0]["body"], "mcall")):
                        vs = list(pat_binds(some[0]["pat"]))
                        if [m for m in find(some[0]["body"], "mcall") if m["m"] == cl and any(y["k"] == "path" and y["segs"][0] in vs for a in m["args"] for y in walk(a))]:
                            return True, "match clause { Some(v) => b.clause(v), None => b }", best
        if cl == "filter":
            # filter_with: `let filter = if let Some(x) = filter { Expr::and(x, predicate) } else { predicate }` (or the same `match`); the conjunction then
            # reaches `.filter(..)` directly or through a helper
            for st in stmts:
                if st["k"] == "let" and st["pat"]["k"] == "ident" and st.get("init") is not None and st["init"]["k"] in ("if", "match"):
                    e = st["init"]
                    some_body = other_body = None
                    if e["k"] == "if" and e["cond"]["k"] == "letcond" and path_of(e["cond"]["e"]) == var and e["cond"]["pat"]["k"] == "tuplestruct" and e["cond"]["pat"]["path"]["segs"][-1] == "Some" and e.get("else") is not None:
                        vs, some_body, other_body = list(pat_binds(e["cond"]["pat"])), e["then"], e["else"]
                    elif e["k"] == "match" and path_of(e["e"]) == var and len(e["arms"]) == 2:
                        sm = [a for a in e["arms"] if a["pat"]["k"] == "tuplestruct" and a["pat"]["path"]["segs"][-1] == "Some" and not a.get("guard")]
                        if len(sm) == 1:
                            vs, some_body, other_body = list(pat_binds(sm[0]["pat"])), sm[0]["body"], [a for a in e["arms"] if a is not sm[0]][0]["body"]
                    if some_body is None:
                        continue
                    conj = [c for c in find(some_body, "call") if (path_of(c["f"]) or "").endswith("Expr::and") and any(y["k"] == "path" and y["segs"][0] in vs for a in c["args"] for y in walk(a))]
                    if not conj:
                        continue
                    nm = st["pat"]["name"]
                    later = stmts[stmts.index(st) + 1 :] if st in stmts else stmts
                    if any(x["k"] == "mcall" and x["m"] == "filter" and x["args"] and path_of(x["args"][0]) == nm for s2 in later for x in walk(s2)):
                        return True, "conjoined with the new predicate", best
                    ok2, how2, _ = reapplied(later, nm, cl, depth)
                    if ok2:
                        return True, "conjoined with the new predicate, then " + how2, best
        if depth < 2:
            # the clause is handed, as it is, to a private helper of the file: the helper's parameter must be re-applied
            for st in stmts:
                for x in walk(st):
                    if x["k"] in ("mcall", "call"):
                        nm = x["m"] if x["k"] == "mcall" else (path_of(x["f"]) or "").split("::")[-1]
                        pos = [i for i, a in enumerate(x["args"]) if path_of(a) == var or (a["k"] == "call" and path_of(a["f"]) == "Some" and len(a["args"]) == 1 and path_of(a["args"][0]) == var)]
                        if not pos or not nm:
                            continue
                        hs = [h for h in src.find_fns(name=nm, file=BF) if h.body and not h.test and h.vis != "pub"] if hasattr(src.fns[0], "vis") else [h for h in src.find_fns(name=nm, file=BF) if h.body and not h.test]
                        if len(hs) != 1:
                            continue
                        hp = [p["pat"]["name"] for p in hs[0].params if not p.get("self") and p["pat"]["k"] == "ident"]
                        if pos[0] < len(hp):
                            ok, how, _ = reapplied(hs[0].body["stmts"], hp[pos[0]], cl, depth + 1)
                            if ok:
                                return True, "%s, in helper %s" % (how, hs[0].qual), best
        return False, None, best

    n = 0
    for f in src.fns:
        if f.test or not f.body or f.file != BF:
            continue
        lets = [st for st in f.body["stmts"] if st["k"] == "let" and st["pat"]["k"] == "struct" and st["pat"]["path"]["segs"][-1] == "Map"]
        if not lets:
            continue
        bound = {}
        for fl in lets[0]["pat"].get("fields", []):
            nm = fl["name"]
            if nm in CL:
                sub = fl.get("pat")
                bound[nm] = sub["name"] if sub is not None and sub["k"] == "ident" else nm
        rest = [st for st in f.body["stmts"] if st is not lets[0]]
        for cl in CL:
            key = "%s@%s" % (f.qual, cl)
            n += 1
            if cl not in bound:
                rep.instance(rid, key, {"fn": f.qual, "clause": cl, "bound": False})
                rep.violation(rid, key, "%s takes a Map apart without binding its `%s`: the clause is dropped from the rebuilt Map" % (f.qual, cl), f.where())
                continue
            ok, how, best = reapplied(rest, bound[cl], cl)
            rep.instance(rid, key, {"fn": f.qual, "clause": cl, "reapplied": how})
            if not ok:
                rep.violation(
                    rid,
                    key,
                    "%s does not re-apply the `%s` of the Map it rebuilds unconditionally (uses: %s)" % (f.qual, cl, "; ".join(".".join(m["m"] for m in c) for c in best) or "none"),
                    f.where(),
                )
    if not n:
        raise Anchor("relation/builder.rs: no function takes a Map apart")


def b2(rep, src, rid="B2"):
    """MapBuilder / ReduceBuilder: a filter is only kept in an existing Map split, so projections come first."""
    rep.rule(
        rid,
        "builder order (syn, following let re-bindings and `fold(builder, |b, x| b.m(x))` accumulators): on a Map/Reduce builder that starts empty in this function "
        "(Relation::map() / Map::builder(), or `self` inside the builder's own helper methods) no `.filter(..)` / `.filter_iter(..)` is applied before the first projection-adding call "
        "(.with / .with_iter / .filter_fields_with / .map_with / .rename_with / .group_by)",
        floor=6,
        necessary="MapBuilder::filter and ReduceBuilder::filter install the predicate into the last existing Map split; on a builder whose split is still the default (empty Reduce, no inner Map) the predicate is "
        "silently dropped (finding C08/E11): the threshold `count > tau` of tau-thresholding, or the WHERE of a query, disappears from the relation",
    )
    n = 0
    for f in src.fns:
        if f.test or not f.body or not f.file.startswith(("relation/builder.rs", "relation/rewriting.rs", "differential_privacy/", "privacy_unit_tracking/", "sql/relation.rs", "rewriting/")):
            continue
        in_builder_impl = bool(re.match(r"^(Map|Reduce)Builder", f.self_ty or ""))
        env = {}  # local -> (root kind, [methods so far])

        def seq(e):
            """(root, [method names]) of the builder value computed by e, or None."""
            e = strip_try(e)
            if e["k"] == "path":
                if e["p"] == "self" and in_builder_impl:
                    return ("self", [])
                return env.get(e["p"])
            if e["k"] == "call":
                pth = strip_generics(path_of(e["f"]) or "")
                if pth.endswith(EMPTY_ROOTS):
                    return ("empty", [])
                return None
            if e["k"] == "mcall":
                if e["m"] == "fold" and len(e["args"]) == 2 and e["args"][1]["k"] == "closure":
                    base = seq(e["args"][0])
                    cl = e["args"][1]
                    if base is None or not cl["params"]:
                        return None
                    acc = pat_binds(cl["params"][0])
                    body = cl["body"]
                    while body["k"] == "block" and len(body["stmts"]) == 1 and body["stmts"][0]["k"] == "expr":
                        body = body["stmts"][0]["e"]
                    ms = []
                    while body["k"] == "mcall":
                        ms.append(body["m"])
                        body = body["recv"]
                    if acc and path_of(body) == acc[0]:
                        return (base[0], base[1] + list(reversed(ms)))
                    return base
                r = seq(e["recv"])
                if r is None:
                    return None
                return (r[0], r[1] + [e["m"]])
            return None

        found = []
        for st in f.body["stmts"]:
            if st["k"] == "let" and st.get("init") is not None:
                nm = pat_ident(st["pat"])
                r = seq(st["init"])
                if nm:
                    if r is not None:
                        env[nm] = r
                        found.append((st["init"], r))
                    else:
                        env.pop(nm, None)
            elif st["k"] == "expr":
                r = seq(st["e"])
                if r is not None:
                    found.append((st["e"], r))
        for e, (root, ms) in found:
            if not any(m in FILTERING for m in ms):
                continue
            first_f = min(i for i, m in enumerate(ms) if m in FILTERING)
            projs = [i for i, m in enumerate(ms) if m in PROJECTING]
            key = "%s@%s" % (f.qual, root)
            n += 1
            rep.instance(rid, key, {"fn": f.qual, "root": root, "calls": ms[:14]})
            if not projs or first_f < projs[0]:
                if root == "self" and not projs:
                    continue  # a pure pass-through helper such as filter_iter: self.filter(..) — the caller's order is what is judged
                rep.violation(rid, key, "`.%s(..)` is applied before any projection was added (calls: %s): on an empty builder the predicate is silently dropped" % (ms[first_f], ms[:10]), "src/%s:%d" % (f.file, e.get("l", f.line)))
    return n


def run(rep):
    rep.explanation = (
        "Static def-use / term rules over the syn AST for 'grouping keys are released only if public or above tau'. Decides, on the source of PupRelation::tau_thresholding_values, "
        "PupRelation::dp_values, Reduce::differentially_private, Relation::{filter_columns, filter, join_with_grouping_values} and Expr::{filter, filter_column, and_iter}: the same Cu/epsilon/delta "
        "feed the contribution cap, the noise, tau and the event (K1); the stages dedupe -> cap -> count distinct units by key -> noise -> filter -> project are chained in this order on every "
        "non-error return (K2); tau is a strict lower bound on the noisy count, conjoined (K3); the no-op branch is gated by 'all key columns public' and the mixed branch cross-joins public values "
        "with thresholded ones under the thresholding event (K4); the aggregation runs over the left-outer join with the released keys (K5). "
        "tau has the closed form 1 + sigma * Phi^-1((1-delta)^(1/Cu)) (K6) and no builder restores the unprotected input after the protected one was attached (B1). NOT decided: the Gaussian calibration itself (numeric), the randomness and SQL semantics of limit_col_contributions / unique (their bodies are not analysed here), "
        "that public value sets are what the schema says (C07), execution of the produced SQL."
    )
    src = Src(facts.src_facts())
    T = Tau(src)
    k1(rep, src, T)
    k2(rep, src, T)
    k3(rep, src, T)
    k4(rep, src)
    k5(rep, src)
    k6(rep, src)
    # builder call order (MIR def-use, shared with C05): .with(node) never after .input/.left/.right
    from .c05 import b1
    from .mir import Mir

    b1(rep, Mir(facts.mir_facts()), ["differential_privacy::", "relation::rewriting::"], rid="B1")
    b2(rep, src)
    b3(rep, src)
    b4(rep, src)
    k7(rep, src)
    k8(rep, src)
    rep.assume("rustc accepts the tree (the syn facts are parsed from the same files the build uses)")
    rep.assume("method names unique / limit_col_contributions / add_gaussian_noise / filter_columns / filter_fields on a Relation resolve to relation/rewriting.rs (no other impl defines them for Relation)")
