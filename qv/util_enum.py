"""N1 — completeness of value enumerations (shared by C06, C11, C12).

Range propagation and conversions *enumerate* finite value sets (Pointwise images, struct value products, the values of a
small interval set) and are exact only if the enumeration is complete.  Every truncating / filtering iterator combinator in
these functions must be in the reviewed table below (one reason per entry); any other one is a violation."""
from .core import find, show

TRUNCATING = {"take", "skip", "step_by", "take_while", "skip_while", "nth", "first", "last", "find", "find_map", "filter", "filter_map", "dedup", "dedup_by", "unique", "unique_by",
              "truncate", "pop", "drain", "split_off", "split_first", "split_last", "chunks", "windows", "next", "min", "max", "min_by", "max_by", "position", "retain", "swap_remove", "remove", "clear"}

# (file, function qualifier regex, combinator) -> reason
REVIEWED = {
    ("data_type/mod.rs", r"TryInto<Vec<Value>>.*::try_into$", "skip"): "the first per-field value list seeds the fold (`first = vec_of_vec[0]`), the remaining ones are skipped past it: skip(1)",
    ("data_type/intervals.rs", r"Values<NaiveDate>.*::values$", "take_while"): "iter_days() is unbounded: take_while(d <= b) is the upper bound of the day range",
}

SCOPE = [
    ("data_type/mod.rs", r"(^|::)combine_vec_of_values$"),
    ("data_type/mod.rs", r"TryInto<Vec<Value>>.*::try_into$"),
    ("data_type/intervals.rs", r"Values<.*>.*::(values|into_values)$"),
    ("data_type/function.rs", r"Pointwise.*::super_image$"),
]


def _take_is_capacity_under_guard(src, f):
    takes = [m for m in find(f.body, "mcall") if m["m"] == "take"]
    if not takes or any(show(t["args"], 0).replace(" ", "") not in ("self.capacity", "self.max_value_len()") for t in takes):
        return False
    sib = [g for g in src.fns if g.file == f.file and g.self_ty == f.self_ty and g.trait == f.trait and not g.test]
    iv = [g for g in sib if g.name == "into_values"]
    ml = [g for g in sib if g.name == "max_value_len"]
    if len(iv) != 1 or len(ml) != 1 or show(ml[0].body, 0).replace(" ", "") != "{self.capacity}":
        return False
    from .core import walk_guards, path_of

    calls = [(x, gd) for x, gd in walk_guards(iv[0].body) if x["k"] == "mcall" and x["m"] == "values" and path_of(x["recv"]) == "self"]
    if not calls:
        return False
    for x, guards in calls:
        if not any(g[0] == "if" and g[2] is True and "self.values_len()" in show(g[1], 0).replace(" ", "") and "<self.max_value_len()" in show(g[1], 0).replace(" ", "") for g in guards):
            return False
    return True


def _reviewed_form(f, c):
    """The reviewed table accepts a combinator for a stated reason: the call must still have the form the reason speaks about.  -> None or what differs."""
    from .core import walk

    sites = [m for m in find(f.body, "mcall") if m["m"] == c]
    if c == "skip":
        bad = [m for m in sites if show(m["args"], 0).strip() != "1"]
        return "skips %s elements, the reason covers skip(1)" % show(bad[0]["args"], 20) if bad else None
    if c == "take_while":
        for m in sites:
            clo = m["args"][0] if m["args"] and m["args"][0]["k"] == "closure" else None
            if clo is None or len(clo["params"]) != 1 or clo["params"][0]["k"] != "ident":
                return "the predicate is not a closure over the day"
            b = clo["body"]
            while b["k"] == "block" and len(b["stmts"]) == 1 and b["stmts"][0]["k"] == "expr":
                b = b["stmts"][0]["e"]
            # the enclosing closure destructures the interval: |[lo, hi]|
            def unref(p_):  # `|&[lo, hi]|` is `|[lo, hi]|` on a copied interval
                while p_["k"] == "ref":
                    p_ = p_["pat"]
                return p_

            enc = [x for x in walk(f.body) if x["k"] == "closure" and any(y is m for y in walk(x["body"])) and x["params"] and unref(x["params"][0])["k"] in ("slice", "array")]
            his = [unref(e["params"][0])["elems"][-1].get("name") for e in enc if unref(e["params"][0]).get("elems")]
            d = clo["params"][0]["name"]
            t = show(b, 0).replace(" ", "").replace("&", "").replace("*", "")
            if not his or t not in ("%s<=%s" % (d, his[-1]), "%s>=%s" % (his[-1], d)):
                return "the day range must be closed at its upper bound (`d <= hi`), found `%s`" % show(b, 40)
        return None
    return None


def n1(rep, src, rid="N1"):
    import re

    rep.rule(
        rid,
        "completeness of value enumerations: combine_vec_of_values, TryInto<Vec<Value>> for DataType, Values<B>::{values, into_values} and Pointwise::super_image contain no truncating / filtering combinator "
        "(take, skip, filter, dedup, first, ...) outside the reviewed table qv/util_enum.py",
        floor=8,
        necessary="Pointwise images and conversions are computed from the enumerated values only: a dropped value is a value the propagated type excludes",
    )
    n = 0
    for f in src.fns:
        if f.test or f.body is None:
            continue
        for (file, rx) in SCOPE:
            if f.file == file and re.search(rx, f.qual):
                n += 1
                used = sorted({m["m"] for m in find(f.body, "mcall") if m["m"] in TRUNCATING})
                rep.instance(rid, f.qual, {"fn": f.qual, "truncating_combinators": used})
                from .core import walk as _walk

                for r_ in _walk(f.body):
                    # an interval [lo, hi] is closed: it is enumerated by `lo..=hi`; `lo..hi` drops hi
                    if r_.get("k") == "range" and r_.get("lo") is not None and r_.get("hi") is not None and not r_.get("incl"):
                        rep.violation(rid, "%s@range" % f.qual, "the half-open range `%s` in the value enumeration %s drops the upper bound of a closed interval" % (show(r_, 40), f.qual), "src/%s:%d" % (f.file, r_["l"]))
                for c in used:
                    ok = any(fl == f.file and re.search(r, f.qual) and cc == c for (fl, r, cc) in REVIEWED)
                    if ok:
                        why = _reviewed_form(f, c)
                        if why:
                            site = [m for m in find(f.body, "mcall") if m["m"] == c][0]
                            rep.violation(rid, "%s@%s" % (f.qual, c), "`.%s(..)` in the value enumeration %s is not the reviewed form: %s (%s)" % (c, f.qual, why, show(site, 100)), "src/%s:%d" % (f.file, site["l"]))
                        continue
                    if not ok and c == "take" and f.name == "values" and _take_is_capacity_under_guard(src, f):
                        # `.take(self.capacity)` in Values::values cannot drop anything when the only enumeration site (into_values of the same impl) runs under
                        # `values_len() < max_value_len()` and max_value_len() is the capacity (that values_len does not under-report is decided by C18/P6)
                        ok = True
                    if not ok:
                        site = [m for m in find(f.body, "mcall") if m["m"] == c][0]
                        rep.violation(rid, "%s@%s" % (f.qual, c), "`.%s(..)` in the value enumeration %s: values may be dropped (%s)" % (c, f.qual, show(site, 100)), "src/%s:%d" % (f.file, site["l"]))
    return n
