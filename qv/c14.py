"""C14 — columns declared unique are unique.

Rules U1–U4 of DESIGN.md §3/C14 (+ U0, an inventory of the sites of relation/mod.rs that may put a constraint on a derived field).
All rules read the syn AST: the `is_bijection` / `is_unique` / `arity` arm tables of expr/function.rs against the reviewed table
qv/c14_injective.py, the reduction of expr/bijection.rs, and the decision terms of Map::schema_exprs, Reduce::schema_aggregate,
Join::schema (+ JoinOperator::{has_unique_constraint, expr_has_unique_constraint}) and Values::schema.
"""
import re

from . import facts
from .core import Src, Anchor, find, walk, walk_guards, show, path_of, is_call_to, pat_binds, is_node
from .flow import Taint
from .c14_injective import INJECTIVE, NOT_INJECTIVE, ROW_UNIQUE

LEVEL = "other"
EXHAUSTIVE = True
RM = "relation/mod.rs"
FN = "expr/function.rs"
BJ = "expr/bijection.rs"


def tail(n):
    """Value expression of a block (None when the block has leading statements or no tail)."""
    while n is not None and n["k"] == "block":
        st = n["stmts"]
        if not st or st[-1]["k"] != "expr" or st[-1].get("semi"):
            return None
        if len(st) != 1:
            return ("stmts", n)
        n = st[0]["e"]
    return n


def block_value(n):
    """Tail expression of a block, whatever precedes it."""
    while n is not None and n["k"] == "block":
        st = n["stmts"]
        if not st or st[-1]["k"] != "expr" or st[-1].get("semi"):
            return None
        n = st[-1]["e"]
    return n


def flat(e, op):
    if e["k"] == "binary" and e["op"] == op:
        return flat(e["lhs"], op) + flat(e["rhs"], op)
    return [e]


def pat_variants(p, enum):
    """Variant names of `enum` named by a pattern; '*' for a catch-all; None if not understood."""
    k = p["k"]
    if k in ("wild",):
        return ["*"]
    if k == "ident":
        return ["*"]
    if k == "path":
        s = p["segs"]
        return [s[-1]] if len(s) >= 2 and s[-2] == enum else None
    if k in ("tuplestruct", "struct"):
        s = p["path"]["segs"]
        return [s[-1]] if len(s) >= 2 and s[-2] == enum else None
    if k == "or":
        out = []
        for c in p["cases"]:
            v = pat_variants(c, enum)
            if v is None:
                return None
            out += v
        return out
    if k == "ref":
        return pat_variants(p["pat"], enum)
    return None


def bool_table(rep, rid, fn, enum, all_variants):
    """`match self { A | B => true, _ => false }` -> set of variants mapped to true."""
    m = block_value(fn.body)
    if m is not None and m["k"] == "macro" and str(m.get("name", "")).split("::")[-1] == "matches" and m.get("args") and len(m["args"]) == 2 and path_of(m["args"][0]) == "self":
        # `matches!(self, A | B(_))` == `match self { A | B(_) => true, _ => false }` (the pattern is parsed as an expression: alternatives joined by `|`)
        alts, st = [], [m["args"][1]]
        while st:
            x = st.pop()
            if x["k"] == "binary" and x["op"] == "|":
                st += [x["lhs"], x["rhs"]]
            elif x["k"] == "paren":
                st.append(x["e"])
            else:
                alts.append(x)
        true = set()
        for x in alts:
            pth = path_of(x["f"]) if x["k"] == "call" else path_of(x)
            segs = (pth or "").split("::")
            if x["k"] not in ("call", "path") or len(segs) < 2 or segs[-2] != enum or (x["k"] == "call" and any(show(a_, 0) not in ("_", "..") for a_ in x["args"])):
                rep.undecidable(rid, fn.qual + "@shape", "matches! alternative not understood: %s" % show(x, 60), fn.where())
                return None
            true.add(segs[-1])
        return true
    if m is None or m["k"] != "match" or path_of(m["e"]) != "self":
        rep.undecidable(rid, fn.qual + "@shape", "body is not `match self { .. }`", fn.where())
        return None
    true, decided = set(), set()
    for a in m["arms"]:
        vs = pat_variants(a["pat"], enum)
        b = block_value(a["body"])
        val = b["v"] if b is not None and b["k"] == "lit" and b["t"] == "bool" else None
        if vs is None or val is None or a.get("guard"):
            rep.undecidable(rid, fn.qual + "@arm:" + show(a["pat"], 40), "arm is not `<variants> => true|false`: %s" % show(a, 80), "src/%s:%d" % (fn.file, a["l"]))
            return None
        for v in vs:
            targets = [x for x in all_variants if x not in decided] if v == "*" else [v]
            for t in targets:
                if t not in decided:
                    decided.add(t)
                    if val:
                        true.add(t)
    return true


def arity_table(rep, src):
    fn = src.one_fn(name="arity", file=FN, self_ty="Function")
    out = {}
    for m in find(fn.body, "match"):
        if path_of(m["e"]) != "self":
            continue
        for a in m["arms"]:
            vs = pat_variants(a["pat"], "Function")
            b = block_value(a["body"])
            if vs is None or b is None:
                continue
            for v in vs:
                out.setdefault(v, show(b, 30))
    return out


# ------------------------------------------------------------------------------------------------ U1


def unbuildable_casts(src):
    """CastAsX variants that no relation can carry today: expr::implementation builds their range-propagation function with
    data_type::function::cast(DataType::x()), and `cast` aborts (todo!) for that target type.  While this holds, a unique
    column can never be mapped through them, so their presence in the bijection list cannot produce a wrongly-unique column."""
    try:
        cast = src.one_fn(name="cast", file="data_type/function.rs")
    except Anchor:
        return set()
    ms = [m for m in find(cast.body, "match")]
    if not ms:
        return set()
    handled, default_aborts = set(), False
    for a in ms[0]["arms"]:
        pats = a["pat"]["cases"] if a["pat"]["k"] == "or" else [a["pat"]]
        aborts = a["body"]["k"] == "macro" and a["body"]["name"] in ("todo", "unimplemented", "panic", "unreachable")
        for p in pats:
            if p["k"] == "wild":
                default_aborts = aborts
            elif p["k"] in ("tuplestruct", "path"):
                segs = p["path"]["segs"] if p["k"] == "tuplestruct" else p["segs"]
                if segs[-2:-1] == ["DataType"] and not aborts:
                    handled.add(segs[-1])
    if not default_aborts:
        return set()
    out = set()
    # implementation table: Function::CastAsX => ... function::cast(DataType::x()) ...
    for f in src.fns:
        pass
    for (file, mod, it, t) in src.items:
        if file == "expr/implementation.rs" and it["k"] == "macro" and it.get("name") == "function_implementations" and it.get("args"):
            for m in find(it["args"][-1], "match"):
                for a in m["arms"]:
                    p = a["pat"]
                    segs = p.get("segs") or (p.get("path") or {}).get("segs") or []
                    if len(segs) >= 2 and segs[-2] == "Function" and segs[-1].startswith("CastAs"):
                        calls = list(find(a["body"], "call"))
                        # a private helper of the file that wraps `function::cast(<its parameter>)` (e.g. `optional_cast(dt)`) is read through
                        for c in list(calls):
                            nm = path_of(c["f"]) or ""
                            hs = [h for h in src.find_fns(name=nm.split("::")[-1], file="expr/implementation.rs") if not h.self_ty and h.body] if "::" not in nm else []
                            if len(hs) == 1:
                                hp = [p_["pat"]["name"] for p_ in hs[0].params if not p_.get("self") and p_["pat"]["k"] == "ident"]
                                for hc in find(hs[0].body, "call"):
                                    if is_call_to(hc, "function::cast") and hc["args"] and path_of(hc["args"][0]) in hp and hp.index(path_of(hc["args"][0])) < len(c["args"]):
                                        calls.append(dict(hc, args=[c["args"][hp.index(path_of(hc["args"][0]))]]))
                        for c in calls:
                            if is_call_to(c, "function::cast") and c["args"] and c["args"][0]["k"] == "call":
                                ctor = (path_of(c["args"][0]["f"]) or "").rsplit("::", 1)[-1]
                                target = "".join(x.capitalize() for x in ctor.split("_"))
                                if target not in handled:
                                    out.add(segs[-1])
    return out


def u1(rep, src):
    rep.rule(
        "U1",
        "bijection list audit: every variant that Function::is_bijection maps to true is in the reviewed injective table (qv/c14_injective.py) and has Arity::Unary; "
        "Function::is_unique accepts only the reviewed per-row generators (Random, Newid), of arity 0; Expr::reduce_modulo_bijection / Expr::is_unique descend into an argument only under "
        "`function.is_bijection()`; Expr::into_column_modulo_bijection yields a column only for Expr::Column; Map::schema_exprs copies an input constraint only for such a column and "
        "creates Unique only under `expr.is_unique()`",
        floor=20,
        necessary="Map::schema_exprs keeps the UNIQUE constraint of column c on f(c) for every f in the list: a non-injective f gives duplicate values in a column declared unique",
    )
    variants = src.enum_variants("Function", file=FN)
    isb = src.one_fn(name="is_bijection", file=FN, self_ty="Function")
    isu = src.one_fn(name="is_unique", file=FN, self_ty="Function")
    ar = arity_table(rep, src)
    bij = bool_table(rep, "U1", isb, "Function", variants)
    unbuildable = unbuildable_casts(src)
    rep.extra["unbuildable_casts"] = sorted(unbuildable)
    if bij is not None:
        rep.extra["is_bijection"] = sorted(bij)
        for v in sorted(bij, key=variants.index if all(x in variants for x in bij) else None):
            rep.instance("U1", "is_bijection@" + v, {"variant": v, "arity": ar.get(v), "reviewed": INJECTIVE.get(v) or NOT_INJECTIVE.get(v)})
            if v in INJECTIVE:
                pass
            elif v in unbuildable:
                rep.instance("U1", "is_bijection@%s@unbuildable" % v, {"variant": v, "exempt": "data_type::function::cast aborts for this target type: no relation can carry the operator (C18/P1); re-examined when it is implemented"}, nontrivial=False)
            elif v in NOT_INJECTIVE:
                rep.violation("U1", "is_bijection@" + v, "Function::%s is listed as a bijection but is not injective: %s" % (v, NOT_INJECTIVE[v]), isb.where())
            else:
                rep.undecidable("U1", "is_bijection@" + v, "Function::%s is listed as a bijection and is not in the reviewed table qv/c14_injective.py" % v, isb.where())
            if ar.get(v) != "Arity::Unary":
                rep.violation("U1", "is_bijection@%s@arity" % v, "Function::%s has arity %s: reduction to its first argument ignores the others" % (v, ar.get(v)), isb.where())
    uniq = bool_table(rep, "U1", isu, "Function", variants)
    if uniq is not None:
        rep.extra["is_unique"] = sorted(uniq)
        for v in sorted(uniq):
            rep.instance("U1", "is_unique@" + v, {"variant": v, "arity": ar.get(v)})
            if v not in ROW_UNIQUE:
                rep.violation("U1", "is_unique@" + v, "Function::%s is declared row-unique but is not a reviewed per-row generator" % v, isu.where())
            elif ar.get(v) != "Arity::Nary(0)":
                rep.violation("U1", "is_unique@%s@arity" % v, "Function::%s has arity %s" % (v, ar.get(v)), isu.where())
    # --- bijection.rs: descent only under is_bijection()
    from .canon import canon_view

    def pos_guard(g):
        """(condition, polarity) of an `if` guard with leading negations folded into the polarity"""
        c, pol = g[1], g[2]
        while is_node(c) and c.get("k") == "unary" and c.get("op", "").strip() == "!":
            c, pol = c["e"], not pol
        while is_node(c) and c.get("k") == "paren":
            c = c["e"]
        return c, pol

    def cv(fn):  # `if let` / early returns / named locals read as the `match` form
        return canon_view(fn, src, iflet=True, helpers=False)

    for name in ("reduce_modulo_bijection", "is_unique"):
        f = cv(src.one_fn(name=name, file=BJ, self_ty="Expr"))
        n = 0
        in_clo = set(id(y) for c in find(f.body, "closure") for y in walk(c))
        for x, guards in walk_guards(f.body):
            if x["k"] == "mcall" and x["m"] == name and path_of(x["recv"]) != "self":
                if name == "is_unique" and id(x) not in in_clo:
                    continue  # `function.is_unique()` is the leaf test on the Function, not a descent
                n += 1
                ok = any(g[0] == "if" and pos_guard(g)[1] is True and pos_guard(g)[0]["k"] == "mcall" and pos_guard(g)[0]["m"] == "is_bijection" and not pos_guard(g)[0]["args"] for g in guards)

                def arm_guarded(g):
                    # `Expr::Function(Function { function, .. }) if function.is_bijection() => ..descent..`: the arm guard is the branch condition
                    if g[0] != "arm":
                        return False
                    gd = g[1]["arms"][g[2]].get("guard")
                    cs = [gd] if gd is not None else []
                    out = []
                    while cs:
                        c = cs.pop()
                        while is_node(c) and c.get("k") == "paren":
                            c = c["e"]
                        if is_node(c) and c.get("k") == "binary" and c["op"].strip() == "&&":
                            cs += [c["lhs"], c["rhs"]]
                        else:
                            out.append(c)
                    return any(is_node(c) and c.get("k") == "mcall" and c["m"] == "is_bijection" and not c["args"] for c in out)

                ok = ok or any(arm_guarded(g) for g in guards)
                rep.instance("U1", "Expr::%s@descent" % name, {"fn": f.qual, "recursive_call": show(x, 60), "guarded_by_is_bijection": ok})
                if not ok:
                    rep.violation("U1", "Expr::%s@descent" % name, "Expr::%s descends into an argument outside the `function.is_bijection()` branch" % name, "src/%s:%d" % (BJ, x["l"]))
        if n == 0 and name == "reduce_modulo_bijection":
            rep.undecidable("U1", "Expr::%s@descent" % name, "no recursive descent found", f.where())
    f = cv(src.one_fn(name="is_unique", file=BJ, self_ty="Expr"))
    for x, guards in walk_guards(f.body):
        if x["k"] == "mcall" and x["m"] == "is_unique" and path_of(x["recv"]) is not None and not x["args"] and x["recv"]["p"] != "self":
            # function.is_unique() (receiver bound by the Expr::Function pattern) vs arg.is_unique() (closure param): keep the former
            under_fn_arm = any(g[0] == "arm" and "Expr::Function" in show(g[1]["arms"][g[2]]["pat"], 0) for g in guards)
            in_closure = any(c["k"] == "closure" and any(y is x for y in walk(c)) for c in find(f.body, "closure"))
            if in_closure:
                continue
            rep.instance("U1", "Expr::is_unique@leaf", {"leaf": show(x, 40), "under_Expr::Function_arm": under_fn_arm})
            if not under_fn_arm:
                rep.violation("U1", "Expr::is_unique@leaf", "row-uniqueness is not read from the function of an Expr::Function node", "src/%s:%d" % (BJ, x["l"]))
    for x in find(f.body, "lit", lambda l: l["t"] == "bool" and l["v"] is True):
        rep.violation("U1", "Expr::is_unique@true", "Expr::is_unique returns a literal `true`", "src/%s:%d" % (BJ, x["l"]))
    f = cv(src.one_fn(name="into_column_modulo_bijection", file=BJ, self_ty="Expr"))
    red = [l["pat"]["name"] for l in find(f.body, "let") if l.get("init") is not None and l["pat"]["k"] == "ident" and l["init"]["k"] == "mcall" and l["init"]["m"] == "reduce_modulo_bijection" and path_of(l["init"]["recv"]) == "self"]
    m = block_value(f.body)
    if m is None or m["k"] != "match" or not (path_of(m["e"]) in red or (m["e"]["k"] == "mcall" and m["e"]["m"] == "reduce_modulo_bijection" and path_of(m["e"]["recv"]) == "self")):
        rep.undecidable("U1", "Expr::into_column_modulo_bijection@shape", "not a `match` on self.reduce_modulo_bijection()", f.where())
    else:
        for a_ in m["arms"]:
            vs = pat_variants(a_["pat"], "Expr")
            b_ = block_value(a_["body"])
            txt = show(b_, 60)
            binds = pat_binds(a_["pat"])
            is_none = path_of(b_) == "None"
            is_col = vs == ["Column"] and not a_.get("guard") and b_ is not None and b_["k"] == "call" and path_of(b_["f"]) == "Some" and len(binds) == 1 and show(b_["args"], 0) in (binds[0] + ".clone()", binds[0])
            rep.instance("U1", "Expr::into_column_modulo_bijection@" + "|".join(vs or [show(a_["pat"], 30)]), {"arm": vs, "answer": txt}, nontrivial=not is_none)
            if not (is_none or is_col):
                rep.violation("U1", "Expr::into_column_modulo_bijection@" + "|".join(vs or [show(a_["pat"], 30)]), "a column is returned for an expression that is not Expr::Column after reduce_modulo_bijection: %s" % txt, "src/%s:%d" % (BJ, a_["l"]))
    # --- Map::schema_exprs
    f = inherent(src, "schema_exprs", "Map")
    rel = [p["pat"]["name"] for p in f.params if p["ty"].replace(" ", "") == "&Relation"]
    cons = [c for c in find(f.body, "call") if is_call_to(c, "Field::new") and len(c["args"]) == 3]
    if len(cons) != 1 or len(rel) != 1:
        rep.undecidable("U1", "Map::schema_exprs@Field::new", "expected one Field::new(name, type, constraint) and one &Relation parameter", f.where())
        return
    c3 = cons[0]["args"][2]
    for x, guards in walk_guards(c3):
        if x["k"] == "mcall" and x["m"] == "constraint":
            lc = [g for g in guards if g[0] == "if" and g[2] is True and g[1]["k"] == "letcond" and g[1]["e"]["k"] == "mcall" and g[1]["e"]["m"] == "into_column_modulo_bijection"]
            ok = False
            if lc:
                b = pat_binds(lc[-1][1]["pat"])
                names = set(y["segs"][0] for y in walk(x["recv"]) if y["k"] == "path" and len(y["segs"]) == 1)
                ok = len(b) == 1 and b[0] in names and rel[0] in names and show(x["recv"], 0).startswith("%s.schema()[" % rel[0])
            rep.instance("U1", "Map::schema_exprs@copy", {"copied": show(x, 70), "for_column_modulo_bijection": ok})
            if not ok:
                rep.violation("U1", "Map::schema_exprs@copy", "an input constraint is copied for an expression that is not that input column modulo bijection: %s" % show(x, 80), "src/%s:%d" % (RM, x["l"]))
        if x["k"] == "call" and path_of(x["f"]) == "Some":
            ok = any(g[0] == "if" and g[2] is True and g[1]["k"] == "mcall" and g[1]["m"] == "is_unique" and not g[1]["args"] for g in guards) and show(x, 0) == "Some(Constraint::Unique)"
            rep.instance("U1", "Map::schema_exprs@create", {"created": show(x, 40), "under_expr.is_unique()": ok})
            if not ok:
                rep.violation("U1", "Map::schema_exprs@create", "a constraint is created outside the `expr.is_unique()` branch: %s" % show(x, 60), "src/%s:%d" % (RM, x["l"]))


# ------------------------------------------------------------------------------------------------ U2


def is_first_test(e):
    """`X.aggregate() == &Aggregate::First` / matches!(X.aggregate(), &Aggregate::First) -> name of X."""
    if e["k"] == "binary" and e["op"] == "==":
        for a, b in ((e["lhs"], e["rhs"]), (e["rhs"], e["lhs"])):
            if a["k"] == "mcall" and a["m"] == "aggregate" and path_of(a["recv"]) and "Aggregate::First" in show(b, 0) and show(b, 0).lstrip("&*") == "Aggregate::First":
                return a["recv"]["p"]
    if e["k"] == "macro" and e["name"] == "matches" and len(e.get("args", [])) == 2:
        a, b = e["args"]
        if a["k"] == "mcall" and a["m"] == "aggregate" and path_of(a["recv"]) and show(b, 0).lstrip("&*") == "Aggregate::First":
            return a["recv"]["p"]
    return None


def u2(rep, src):
    rep.rule(
        "U2",
        "uniqueness of a group key depends on the grouping: (a) in Reduce::new the schema is data-dependent on the `group_by` parameter; (b) in Reduce::schema_aggregate "
        "Some(Constraint::Unique) is decided by `agg is First && (one-group flag || the aggregated input column is itself Unique/PrimaryKey)`, the flag being `<count> == 1` "
        "of the First aggregates / of the grouping columns, the constraint being read on input.schema() for the aggregate's own column; otherwise None",
        floor=4,
        necessary="a key of a multi-column grouping repeats across groups; an aggregate that is not a group key (Sum, Count..) repeats as well; a ForeignKey input column has duplicates",
    )
    new = inherent(src, "new", "Reduce")
    gb = [p["pat"]["name"] for p in new.params if p["ty"].replace(" ", "") in ("Vec<Column>", "&[Column]", "&Vec<Column>")]
    if len(gb) != 1:
        raise Anchor("Reduce::new: expected one group-by parameter of type Vec<Column>, found %s" % gb)
    t = Taint({gb[0]: "group_by"})
    t.run_block(new.body)
    lit = [s for s in walk(new.body) if s["k"] == "struct" and show(s["path"]) in ("Reduce", "Self")]
    dep = None
    if len(lit) == 1:
        for fld in lit[0]["fields"]:
            if fld["name"] == "schema":
                dep = "group_by" in t.labels(fld["e"])
    rep.instance("U2", "Reduce::new@schema<-group_by", {"schema_depends_on_group_by": dep})
    if dep is None:
        rep.undecidable("U2", "Reduce::new@schema", "no `Reduce { schema, .. }` literal found in Reduce::new", new.where())
    elif not dep:
        rep.violation(
            "U2",
            "Reduce::new@schema<-group_by",
            "the schema of a Reduce (and so the UNIQUE flag of its group keys) does not depend on `%s`: schema_aggregate never sees the grouping columns" % gb[0],
            new.where(),
        )
    # (b) the decision term
    cands = [f for f in src.find_fns(file=RM, self_ty="Reduce") if f.body and any(show(x, 0) == "Some(Constraint::Unique)" for x in find(f.body, "call"))]
    if len(cands) != 1:
        raise Anchor("impl Reduce: expected one function creating Some(Constraint::Unique), found %d" % len(cands))
    f = cands[0]
    Q = f.qual
    relp = [p["pat"]["name"] for p in f.params if p["ty"].replace(" ", "") == "&Relation"]
    gbp = [p["pat"]["name"] for p in f.params if p["ty"].replace(" ", "") in ("Vec<Column>", "&[Column]", "&Vec<Column>")]
    lets = {}
    for l in find(f.body, "let"):
        if l["pat"]["k"] == "ident" and l.get("init") is not None:
            lets[l["pat"]["name"]] = l["init"]
    sites = [x for x in find(f.body, "if") if (lambda v: v is not None and show(v, 0) == "Some(Constraint::Unique)")(block_value(x["then"]))]
    others = [x for x in find(f.body, "call") if show(x, 0) == "Some(Constraint::Unique)"]
    if not sites:
        # `<cond>.then_some(Constraint::Unique)` / `<cond>.then(|| Constraint::Unique)` is `if <cond> { Some(Constraint::Unique) } else { None }`
        for m in find(f.body, "mcall"):
            if m["m"] in ("then_some", "then") and len(m["args"]) == 1:
                a0 = m["args"][0]
                if m["m"] == "then" and a0["k"] == "closure" and not a0["params"]:
                    a0 = block_value(a0["body"]) if a0["body"]["k"] == "block" else a0["body"]
                if a0 is not None and show(a0, 0) == "Constraint::Unique":
                    l = m.get("l", 0)
                    blk = lambda e: {"k": "block", "l": l, "stmts": [{"k": "expr", "l": l, "e": e, "semi": False}]}
                    sites.append({"k": "if", "l": l, "cond": m["recv"], "then": blk({"k": "call", "l": l, "f": {"k": "path", "l": l, "p": "Some", "segs": ["Some"]}, "args": [a0]}), "else": blk({"k": "path", "l": l, "p": "None", "segs": ["None"]})})
    if len(sites) != 1:
        rep.undecidable("U2", Q + "@decision", "expected one `if <cond> { Some(Constraint::Unique) } else { None }`, found %d" % len(sites), f.where())
        return
    site = sites[0]
    cond = site["cond"]
    hops = 0
    while cond["k"] == "path" and len(cond["segs"]) == 1 and cond["segs"][0] in lets and hops < 4:  # `let is_unique = <decision>; if is_unique { .. }`
        cond, hops = lets[cond["segs"][0]], hops + 1
    where = "src/%s:%d" % (RM, site["l"])
    ev = block_value(site["else"]) if site.get("else") else None
    if ev is None or path_of(ev) != "None":
        rep.violation("U2", Q + "@else", "the alternative of the Unique decision is not `None`: %s" % show(site.get("else"), 60), where)
    for o in others:
        inside_then = any(y is o for y in walk(site["then"]))
        inside_cond = any(y is o for y in walk(site["cond"])) or any(y is o for y in walk(cond))
        if not inside_then and not inside_cond:
            rep.violation("U2", Q + "@second-site", "Some(Constraint::Unique) is also produced outside the decision", "src/%s:%d" % (RM, o["l"]))
    conj = flat(cond, "&&")
    firsts = [(c, is_first_test(c)) for c in conj if is_first_test(c)]
    rep.instance("U2", Q + "@first", {"conjuncts": [show(c, 70) for c in conj], "first_test_on": [n for _, n in firsts]})
    if len(firsts) != 1:
        rep.violation("U2", Q + "@first", "Unique is not conjunctively restricted to `Aggregate::First` (group keys): %s" % show(site["cond"], 120), where)
        return
    agg = firsts[0][1]
    rest = [c for c in conj if c is not firsts[0][0]]
    if len(rest) != 1:
        rep.undecidable("U2", Q + "@reasons", "expected `is First && (reason || reason)`, found %d further conjuncts" % len(rest), where)
        return
    for d in flat(rest[0], "||"):
        txt = show(d, 100)
        # reason B: one-group flag
        if d["k"] == "path" and len(d["segs"]) == 1 and d["segs"][0] in lets:
            init = lets[d["segs"][0]]
            okb = False
            why = "flag `%s` is not `<count> == 1`" % d["segs"][0]
            if init["k"] == "binary":
                cnt = None
                if init["op"] == "==":
                    for a, b in ((init["lhs"], init["rhs"]), (init["rhs"], init["lhs"])):
                        hops2 = 0
                        while a["k"] == "path" and len(a["segs"]) == 1 and a["segs"][0] in lets and hops2 < 4:  # `let first_count = ..count(); let flag = first_count == 1;`
                            a, hops2 = lets[a["segs"][0]], hops2 + 1
                        if b["k"] == "lit" and b["t"] == "int" and str(b["v"]) == "1" and a["k"] == "mcall" and a["m"] in ("count", "len"):
                            cnt = a
                if cnt is not None:
                    names = set(y["segs"][0] for y in walk(cnt) if y["k"] == "path" and len(y["segs"]) == 1)
                    filt = [m for m in find(cnt, "mcall") if m["m"] == "filter" and any(is_first_test(z) for z in walk(m))]
                    aggp = [p["pat"]["name"] for p in f.params if "AggregateColumn" in p["ty"]]
                    if filt and set(aggp) & names:
                        okb, why = True, "count of First aggregates == 1"
                    elif set(gbp) & names and not [m for m in find(cnt, "mcall") if m["m"] in ("filter", "skip", "take", "filter_map")]:
                        okb, why = True, "number of grouping columns == 1"
                        # this reason reads every First aggregate as THE grouping key: sound only while the builders that emit First(col) for a list of
                        # fields group by that same list (SELECT DISTINCT): pair-sensitive check of the producer side
                        for bad_fn, wi, gi in first_convention(src):
                            rep.violation("U2", Q + "@first-convention", "schema_aggregate flags every First column of a single-key Reduce as UNIQUE, but %s emits First(..) over `%s` while grouping by `%s`: non-key columns are declared unique" % (bad_fn.qual, wi, gi), bad_fn.where())
                    else:
                        why = "the count is neither over the First aggregates nor over the grouping columns: %s" % show(cnt, 80)
                else:
                    why = "flag `%s` is `%s`, not `<count> == 1`" % (d["segs"][0], show(init, 80))
            rep.instance("U2", Q + "@one-group", {"flag": d["segs"][0], "init": show(init, 120), "accepted": okb, "as": why})
            if not okb:
                rep.violation("U2", Q + "@one-group", "the single-grouping-column reason is wrong: %s" % why, "src/%s:%d" % (RM, init["l"]))
            continue
        # reason C: the aggregated column is unique in the input
        okc = False
        why = "not understood"
        lhs = None
        if d["k"] == "binary" and d["op"] == "==":
            for a, b in ((d["lhs"], d["rhs"]), (d["rhs"], d["lhs"])):
                if show(b, 0) in ("Some(Constraint::Unique)", "Some(Constraint::PrimaryKey)"):
                    lhs = a
            if lhs is None:
                why = "compared with something else than Some(Constraint::Unique|PrimaryKey)"
        elif d["k"] == "mcall" and d["m"] == "has_unique_or_primary_key_constraint":
            lhs = d
        elif d["k"] == "binary":
            why = "constraint tested with `%s`" % d["op"]
        if lhs is not None:
            s = show(lhs, 0)
            cn = [m for m in find(lhs, "mcall") if m["m"] == "column_name" and path_of(m["recv"]) == agg]
            if not (relp and s.startswith("%s.schema()" % relp[0])):
                why = "the constraint is not read on the input relation's schema"
            elif not cn:
                why = "the field looked up is not `%s.column_name()`" % agg
            elif not (lhs["k"] == "mcall" and lhs["m"] in ("constraint", "has_unique_or_primary_key_constraint")):
                why = "not a `.constraint()` test"
            else:
                okc, why = True, "own input column is Unique"
        rep.instance("U2", Q + "@input-unique", {"reason": txt, "accepted": okc, "as": why})
        if not okc:
            rep.violation("U2", Q + "@input-unique", "a reason for Unique is not `input column of this First aggregate is Unique/PrimaryKey` (%s): %s" % (why, txt), "src/%s:%d" % (RM, d["l"]))


# ------------------------------------------------------------------------------------------------ U3


def first_convention(src):
    """Reduce builders of relation/rewriting.rs that emit `First(col f)` for the fields of a list but group by another list: [(fn, first-list, group-list)]."""
    out = []
    for f in src.fns:
        if f.test or not f.body or f.file != "relation/rewriting.rs":
            continue
        for b in find(f.body, "mcall"):
            if b["m"] != "build":
                continue
            chain, r = [], b
            while r["k"] == "mcall":
                chain.append(r)
                r = r["recv"]
            if not is_call_to(r, "Relation::reduce"):
                continue
            wi = [c for c in chain if c["m"] == "with_iter" and c["args"] and any(is_call_to(x, "Expr::first") for x in walk(c["args"][0]))]
            gi = [c for c in chain if c["m"] == "group_by_iter" and c["args"]]
            if len(wi) != 1 or len(gi) != 1:
                continue

            def root(e):
                while e["k"] == "mcall":
                    e = e["recv"]
                while e["k"] == "ref":
                    e = e["e"]
                return path_of(e)

            a, g = root(wi[0]["args"][0]), root(gi[0]["args"][0])
            if a is None or g is None or a != g:
                out.append((f, show(wi[0]["args"][0], 50), show(gi[0]["args"][0], 50)))
    return out


def names_in(e):
    return set(y["segs"][0] for y in walk(e) if y["k"] == "path" and len(y["segs"]) == 1)


def is_ff(e):
    e = block_value(e) if e["k"] == "block" else e
    return e is not None and e["k"] == "tuple" and len(e["elems"]) == 2 and all(x["k"] == "lit" and x["t"] == "bool" and x["v"] is False for x in e["elems"])


def inherent(src, name, self_ty):
    r = [f for f in src.find_fns(name=name, file=RM, self_ty=self_ty) if not f.trait]
    if len(r) != 1:
        raise Anchor("expected one inherent fn %s::%s in %s, found %d" % (self_ty, name, RM, len(r)))
    return r[0]


def u3(rep, src):
    rep.rule(
        "U3",
        "join constraint pairing: Join::schema keeps the constraints of the LEFT fields only under the flag `right key is unique` and vice versa, with (left, right) = "
        "has_unique_constraint(left.schema(), right.schema()), left fields first; has_unique_constraint forwards (expr, left_schema, right_schema) in order and answers (false,false) without ON expression; "
        "expr_has_unique_constraint answers (false,false) for everything but Eq and And, And combines the two sides position-wise, Eq sets the flag of the side whose name heads the column path, "
        "from a map built with left_schema under Join::left_name() and right_schema under Join::right_name()",
        floor=12,
        necessary="swapping a flag keeps UNIQUE on the side whose rows are duplicated by the join (one left row matching many right rows when only the LEFT key is unique)",
    )
    # ---- Join::schema
    f = inherent(src, "schema", "Join")
    rel = [p["pat"]["name"] for p in f.params if p["ty"].replace(" ", "") == "&Relation"]
    if len(rel) != 2:
        raise Anchor("Join::schema: expected two &Relation parameters")
    L, R = rel
    flags = schemas = None
    for l in find(f.body, "let"):
        init = l.get("init")
        if init is None or l["pat"]["k"] != "tuple" or len(l["pat"]["elems"]) != 2 or any(e["k"] != "ident" for e in l["pat"]["elems"]):
            continue
        nm = [e["name"] for e in l["pat"]["elems"]]
        if init["k"] == "mcall" and init["m"] == "has_unique_constraint":
            a = [show(x, 0) for x in init["args"]]
            rep.instance("U3", "Join::schema@flags", {"flags": nm, "from": show(init, 90)})
            if a == ["%s.schema()" % L, "%s.schema()" % R]:
                flags = nm
            else:
                rep.violation("U3", "Join::schema@flags", "has_unique_constraint is not called with (left.schema(), right.schema()) in that order: %s" % show(init, 100), "src/%s:%d" % (RM, l["l"]))
                flags = nm
        if init["k"] == "mcall" and init["m"] == "filtered_schemas":
            a = [show(x, 0) for x in init["args"]]
            rep.instance("U3", "Join::schema@schemas", {"schemas": nm, "from": show(init, 90)})
            if a != [L, R]:
                rep.violation("U3", "Join::schema@schemas", "filtered_schemas is not called with (left, right) in that order: %s" % show(init, 100), "src/%s:%d" % (RM, l["l"]))
            schemas = nm
    if not flags or not schemas:
        rep.undecidable("U3", "Join::schema@anchors", "could not find `let (l, r) = operator.has_unique_constraint(..)` and `let (ls, rs) = operator.filtered_schemas(..)`", f.where())
    else:
        side_of_var = {}
        for l in find(f.body, "let"):
            init = l.get("init")
            if init is None or l["pat"]["k"] != "ident":
                continue
            for c in find(init, "call"):
                if not (is_call_to(c, "Field::new") and len(c["args"]) == 3):
                    continue
                nms = names_in(init) - names_in(c)
                # the iterator the fields come from
                src_side = [s for s in (0, 1) if schemas[s] in names_in(init)]
                if len(src_side) != 1:
                    rep.undecidable("U3", "Join::schema@fields:" + l["pat"]["name"], "cannot tell which side's schema these fields come from", "src/%s:%d" % (RM, c["l"]))
                    continue
                s = src_side[0]
                side_of_var[l["pat"]["name"]] = s
                c3 = c["args"][2]
                if c3["k"] == "path" and len(c3["segs"]) == 1:  # `let left_constraint = if flag { .. } else { None }; Field::new(name, ty, left_constraint)`
                    cl_lets = [x for x in find(init, "let") if x["pat"]["k"] == "ident" and x["pat"]["name"] == c3["segs"][0] and x.get("init") is not None]
                    if len(cl_lets) == 1:
                        c3 = cl_lets[0]["init"]
                used = [i for i in (0, 1) if flags[i] in names_in(c3)]
                shape_ok = False
                if c3["k"] == "mcall" and c3["m"] == "unwrap_or" and show(c3["args"], 0) == "None" and c3["recv"]["k"] == "mcall" and c3["recv"]["m"] == "then_some" and path_of(c3["recv"]["recv"]) in flags:
                    inner = c3["recv"]["args"][0]
                    shape_ok = inner["k"] == "mcall" and inner["m"] == "constraint" and not inner["args"]
                elif c3["k"] == "mcall" and c3["m"] == "flatten" and not c3["args"] and c3["recv"]["k"] == "mcall" and c3["recv"]["m"] in ("then", "then_some") and path_of(c3["recv"]["recv"]) in flags and len(c3["recv"]["args"]) == 1:
                    # `<flag>.then(|| field.constraint()).flatten()`: Some(constraint) flattened when the flag holds, None otherwise
                    inner = c3["recv"]["args"][0]
                    if c3["recv"]["m"] == "then" and inner["k"] == "closure" and not inner["params"]:
                        inner = block_value(inner["body"]) if inner["body"]["k"] == "block" else inner["body"]
                    shape_ok = inner is not None and inner["k"] == "mcall" and inner["m"] == "constraint" and not inner["args"]
                elif c3["k"] == "if" and path_of(c3["cond"]) in flags:
                    tv, evv = block_value(c3["then"]), block_value(c3["else"]) if c3.get("else") else None
                    shape_ok = tv is not None and tv["k"] == "mcall" and tv["m"] == "constraint" and evv is not None and path_of(evv) == "None"
                key = "Join::schema@%s-fields" % ("left" if s == 0 else "right")
                rep.instance("U3", key, {"fields_of": "left" if s == 0 else "right", "constraint": show(c3, 90), "flag_used": [("left" if i == 0 else "right") + "_key_unique" for i in used]})
                if not shape_ok:
                    rep.undecidable("U3", key, "constraint expression is not `<flag>.then_some(field.constraint()).unwrap_or(None)`: %s" % show(c3, 90), "src/%s:%d" % (RM, c3["l"]))
                elif used != [1 - s]:
                    rep.violation(
                        "U3",
                        key,
                        "the %s fields keep their constraints under the flag of the %s key (must be the %s key): %s"
                        % ("left" if s == 0 else "right", "/".join("left" if i == 0 else "right" for i in used) or "no", "right" if s == 0 else "left", show(c3, 90)),
                        "src/%s:%d" % (RM, c3["l"]),
                    )
        tv = block_value(f.body)
        order = None
        if tv is not None and tv["k"] == "mcall" and tv["m"] == "collect" and tv["recv"]["k"] == "mcall" and tv["recv"]["m"] == "chain":
            a, b = path_of(tv["recv"]["recv"]), path_of(tv["recv"]["args"][0]) if tv["recv"]["args"] else None
            if a in side_of_var and b in side_of_var:
                order = [side_of_var[a], side_of_var[b]]
        rep.instance("U3", "Join::schema@order", {"result": show(tv, 60), "sides": order})
        if order is None:
            rep.undecidable("U3", "Join::schema@order", "result is not `<left fields>.chain(<right fields>).collect()`: %s" % show(tv, 80), f.where())
        elif order != [0, 1]:
            rep.violation("U3", "Join::schema@order", "the right fields come first: names and constraints are attached to the wrong columns", f.where())
    # ---- has_unique_constraint
    h = src.one_fn(name="has_unique_constraint", file=RM, self_ty="JoinOperator")
    hp = [p["pat"]["name"] for p in h.params if not p.get("self")]
    m = block_value(h.body)
    if m is None or m["k"] != "match" or path_of(m["e"]) != "self":
        rep.undecidable("U3", "has_unique_constraint@shape", "not a `match self`", h.where())
    else:
        for a in m["arms"]:
            vs = pat_variants(a["pat"], "JoinOperator")
            b = block_value(a["body"])
            key = "has_unique_constraint@" + "|".join(vs or ["?"])
            if is_ff(a["body"]):
                rep.instance("U3", key, {"arm": vs, "answer": "(false, false)"}, nontrivial=False)
                continue
            binds = pat_binds(a["pat"])
            ok = b is not None and b["k"] == "call" and is_call_to(b, "expr_has_unique_constraint") and len(b["args"]) == 3 and [show(x, 0).lstrip("&") for x in b["args"]][1:] == hp and path_of(b["args"][0]) in binds
            rep.instance("U3", key, {"arm": vs, "answer": show(b, 80)})
            if not ok:
                rep.violation("U3", key, "the ON expression and (left_schema, right_schema) are not forwarded in order: %s" % show(b, 100), "src/%s:%d" % (RM, a["l"]))
    # ---- expr_has_unique_constraint
    from .canon import canon_view as _cv

    e = _cv(src.one_fn(name="expr_has_unique_constraint", file=RM, self_ty="JoinOperator"), src, lets=False, helpers=False)  # early returns (`let f = match expr { F(f) => f, _ => return .. }`) read as the plain match
    ep = [p["pat"]["name"] for p in e.params]
    if len(ep) != 3:
        raise Anchor("expr_has_unique_constraint: expected (expr, left_schema, right_schema)")
    X, LS, RS = ep
    outer = block_value(e.body)
    if outer is not None and outer["k"] == "if" and outer["cond"]["k"] == "letcond" and outer.get("else") is not None and path_of(outer["cond"]["e"]) == X:
        # `let Expr::Function(f) = expr else { return (false, false) }; <rest>` (read as `if let .. { rest } else { .. }`) is the two-arm match on expr
        outer = {"k": "match", "l": outer["l"], "e": outer["cond"]["e"], "arms": [
            {"pat": outer["cond"]["pat"], "body": outer["then"], "l": outer["l"]},
            {"pat": {"k": "wild", "l": outer["l"]}, "body": outer["else"], "l": outer["l"]}]}
    if outer is None or outer["k"] != "match" or path_of(outer["e"]) != X:
        rep.undecidable("U3", "expr_has_unique_constraint@shape", "not a `match expr`", e.where())
        return
    inner = None
    for a in outer["arms"]:
        vs = pat_variants(a["pat"], "Expr")
        if is_ff(a["body"]):
            rep.instance("U3", "expr_has_unique_constraint@Expr::" + "|".join(vs or ["?"]), {"arm": vs, "answer": "(false, false)"}, nontrivial=False)
            continue
        b = block_value(a["body"])
        if vs == ["Function"] and b is not None and b["k"] == "match" and b["e"]["k"] == "mcall" and b["e"]["m"] == "function":
            inner = (b, pat_binds(a["pat"]))
            rep.instance("U3", "expr_has_unique_constraint@Expr::Function", {"arm": vs, "answer": "match f.function()"})
        else:
            rep.violation("U3", "expr_has_unique_constraint@Expr::" + "|".join(vs or [show(a["pat"], 30)]), "an expression that is not a function call answers something else than (false, false)", "src/%s:%d" % (RM, a["l"]))
    if inner is None:
        rep.undecidable("U3", "expr_has_unique_constraint@Function", "no `Expr::Function(f) => match f.function()` arm", e.where())
        return
    inner, fb = inner
    for a in inner["arms"]:
        vs = pat_variants(a["pat"], "Function")
        if is_ff(a["body"]):
            rep.instance("U3", "expr_has_unique_constraint@" + "|".join(vs or ["?"]), {"arm": vs, "answer": "(false, false)"}, nontrivial=False)
            continue
        where = "src/%s:%d" % (RM, a["l"])
        if vs is None:
            rep.undecidable("U3", "expr_has_unique_constraint@" + show(a["pat"], 40), "pattern not understood", where)
            continue
        for v in vs:
            if v not in ("Eq", "And"):
                rep.violation("U3", "expr_has_unique_constraint@" + v, "Function::%s propagates key uniqueness (only an equality, or a conjunction containing one, bounds the matches per row)" % v, where)
        if "And" in vs:
            u3_and(rep, a, X, LS, RS, where)
        if "Eq" in vs:
            u3_eq(rep, a, LS, RS, where)


def u3_and(rep, a, X, LS, RS, where):
    body = a["body"]
    rec = {}
    for l in find(body, "let"):
        init = l.get("init")
        if l["pat"]["k"] == "ident" and init is not None and init["k"] == "call" and is_call_to(init, "expr_has_unique_constraint"):
            ok = len(init["args"]) == 3 and [show(x, 0).lstrip("&") for x in init["args"][1:]] == [LS, RS]
            rec[l["pat"]["name"]] = ok
            if not ok:
                rep.violation("U3", "expr_has_unique_constraint@And@recursion", "the recursive call does not pass (left_schema, right_schema) in order: %s" % show(init, 100), "src/%s:%d" % (RM, l["l"]))
    # `let (x_left, x_right) = Self::expr_has_unique_constraint(..)`: the two names are x.0 and x.1 of that recursive answer
    comp = {}
    for l in find(body, "let"):
        init = l.get("init")
        if l["pat"]["k"] == "tuple" and len(l["pat"]["elems"]) == 2 and all(e_["k"] == "ident" for e_ in l["pat"]["elems"]) and init is not None and init["k"] == "call" and is_call_to(init, "expr_has_unique_constraint"):
            ok = len(init["args"]) == 3 and [show(x, 0).lstrip("&") for x in init["args"][1:]] == [LS, RS]
            rid_ = "#rec%d" % len(rec)
            rec[rid_] = ok
            for j, e_ in enumerate(l["pat"]["elems"]):
                comp[e_["name"]] = (rid_, j)
            if not ok:
                rep.violation("U3", "expr_has_unique_constraint@And@recursion", "the recursive call does not pass (left_schema, right_schema) in order: %s" % show(init, 100), "src/%s:%d" % (RM, l["l"]))

    def component(p):
        """(recursive answer, index) a sub-expression stands for"""
        if p["k"] == "field" and path_of(p["e"]) in rec and p["name"] in ("0", "1"):
            return path_of(p["e"]), int(p["name"])
        if p["k"] == "path" and len(p["segs"]) == 1 and p["segs"][0] in comp:
            return comp[p["segs"][0]]
        return None

    tv = block_value(body)
    rep.instance("U3", "expr_has_unique_constraint@And", {"result": show(tv, 80), "recursive_results": sorted(rec)})
    ok = tv is not None and tv["k"] == "tuple" and len(tv["elems"]) == 2 and len(rec) == 2
    if ok:
        for i, el in enumerate(tv["elems"]):
            parts = flat(el, "||") if el["k"] == "binary" and el["op"] == "||" else flat(el, "&&")
            cs = [component(p) for p in parts]
            good = len(parts) == 2 and all(c is not None and c[1] == i for c in cs) and {c[0] for c in cs if c} == set(rec)
            if not good:
                rep.violation("U3", "expr_has_unique_constraint@And", "component %d of the And answer is not `x.%d || y.%d` of the two recursive answers: %s" % (i, i, i, show(el, 60)), where)
    else:
        rep.undecidable("U3", "expr_has_unique_constraint@And", "And arm is not `(x.0 || y.0, x.1 || y.1)` over two recursive answers", where)


def u3_eq(rep, a, LS, RS, where):
    body = a["body"]
    tv = block_value(body)
    if tv is None or tv["k"] != "tuple" or len(tv["elems"]) != 2 or any(path_of(x) is None for x in tv["elems"]):
        rep.undecidable("U3", "expr_has_unique_constraint@Eq", "Eq arm does not end with `(left, right)`", where)
        return
    flag = [path_of(x) for x in tv["elems"]]
    # the map of key flags
    rows = []
    for m in find(body, "mcall"):
        if m["m"] != "map" or not m["args"] or m["args"][0]["k"] != "closure":
            continue
        t = block_value(m["args"][0]["body"]) if m["args"][0]["body"]["k"] == "block" else m["args"][0]["body"]
        if t is None or t["k"] != "tuple" or len(t["elems"]) != 2:
            continue
        k0 = t["elems"][0]
        if not (k0["k"] == "macro" and k0["name"] == "vec" and k0.get("args")):
            continue
        head = show(k0["args"][0], 0)
        root = m["recv"]
        while root["k"] == "mcall":
            root = root["recv"]
        side = {"Join::left_name()": 0, "Join::right_name()": 1}.get(head)
        val = t["elems"][1]
        rows.append((path_of(root), side, val, m))
    rep.instance("U3", "expr_has_unique_constraint@Eq@map", {"rows": [(r[0], ["left", "right", "?"][r[1] if r[1] is not None else 2], show(r[2], 60)) for r in rows]})
    if len(rows) != 2 or {r[0] for r in rows} != {LS, RS}:
        rep.undecidable("U3", "expr_has_unique_constraint@Eq@map", "the key-flag map is not built from left_schema and right_schema rows `(vec![Join::<side>_name(), f.name()], <flag>)`", where)
    else:
        for nm, side, val, m in rows:
            want = 0 if nm == LS else 1
            if side != want:
                rep.violation("U3", "expr_has_unique_constraint@Eq@map", "fields of %s are registered under %s" % (nm, show(block_value(m["args"][0]["body"]) or m["args"][0]["body"], 60)), "src/%s:%d" % (RM, m["l"]))
            if not (val["k"] == "mcall" and val["m"] == "has_unique_or_primary_key_constraint" and not val["args"]):
                rep.violation("U3", "expr_has_unique_constraint@Eq@map", "the registered flag is not `f.has_unique_or_primary_key_constraint()`: %s" % show(val, 60), "src/%s:%d" % (RM, m["l"]))
    # `let (qualified_path, _) = keys.get_key_value(column).unwrap();`: the first component is the `.0` of the lookup
    key_paths = set()
    for l in find(body, "let"):
        if l["pat"]["k"] == "tuple" and l["pat"]["elems"] and l["pat"]["elems"][0]["k"] == "ident" and l.get("init") is not None and "get_key_value(" in show(l["init"], 0).replace(" ", ""):
            key_paths.add(l["pat"]["elems"][0]["name"])
    n = 0
    for x, guards in walk_guards(body):
        if x["k"] != "assign" or path_of(x["lhs"]) not in flag:
            continue
        n += 1
        tgt = flag.index(path_of(x["lhs"]))
        side = None
        for g in guards:
            if g[0] == "if" and g[1]["k"] == "path" and len(g[1]["segs"]) == 1:
                # `let is_left = <path>.0[0] == Join::left_name(); if is_left { .. } else { .. }`: the nearest preceding definition of the flag
                defs = [l for l in find(body, "let") if l["pat"]["k"] == "ident" and l["pat"]["name"] == g[1]["segs"][0] and l.get("init") is not None and l["l"] <= x["l"]]
                if defs:
                    g = (g[0], max(defs, key=lambda l: l["l"])["init"], g[2])
            if g[0] == "if" and g[1]["k"] == "binary" and g[1]["op"] in ("==", "!="):
                s = show(g[1], 0)
                hs = [i for i, nmx in enumerate(("Join::left_name()", "Join::right_name()")) if nmx in s]
                if len(hs) == 1 and (".0[0]" in s.replace(" ", "") or any((kp + "[0]") in s.replace(" ", "") for kp in key_paths)):
                    pol = g[2] if g[1]["op"] == "==" else (not g[2])
                    side = hs[0] if pol else 1 - hs[0]
        under_col = any(g[0] == "if" and g[2] is True and g[1]["k"] == "letcond" and "Expr::Column" in show(g[1]["pat"], 0) for g in guards)
        rep.instance("U3", "expr_has_unique_constraint@Eq@set-%s" % ("left" if tgt == 0 else "right"), {"assign": show(x, 80), "branch_side": None if side is None else ("left" if side == 0 else "right"), "under_Expr::Column": under_col})
        loc = "src/%s:%d" % (RM, x["l"])
        if side is None or not under_col:
            rep.undecidable("U3", "expr_has_unique_constraint@Eq@set-%s" % ("left" if tgt == 0 else "right"), "flag assigned outside `if let Expr::Column(c) .. if <path>.0[0] == Join::left_name()`", loc)
        elif side != tgt:
            rep.violation("U3", "expr_has_unique_constraint@Eq@set-%s" % ("left" if tgt == 0 else "right"), "the %s flag is set in the branch where the column belongs to the %s input" % ("left" if tgt == 0 else "right", "left" if side == 0 else "right"), loc)
    if n < 2:
        rep.undecidable("U3", "expr_has_unique_constraint@Eq@set", "expected assignments to both flags", where)
    # the equality must relate the two inputs: some test of the arm has to look at both arguments together
    groups = {0: set(), 1: set()}

    def arg_index(e):
        for y in walk(e):
            if y["k"] == "index" and y["e"]["k"] == "mcall" and y["e"]["m"] == "arguments" and y["i"]["k"] == "lit":
                return int(y["i"]["v"])
        return None

    joint = False
    for x, guards in walk_guards(body):
        conds = []
        if x["k"] == "if":
            conds.append(x["cond"])
        if x["k"] == "match":
            conds.append(x["e"])
        for c in conds:
            idx = set()
            for y in walk(c):
                if y["k"] == "index" and y["e"]["k"] == "mcall" and y["e"]["m"] == "arguments" and y["i"]["k"] == "lit":
                    idx.add(int(y["i"]["v"]))
            bound = set()
            for g in guards:
                if g[0] == "if" and g[1]["k"] == "letcond":
                    i = arg_index(g[1]["e"])
                    if i is not None and set(pat_binds(g[1]["pat"])) & names_in(c):
                        bound.add(i)
            if c["k"] == "letcond":
                i = arg_index(c["e"])
                if i is not None:
                    idx.add(i)
            if len(idx | bound) >= 2:
                joint = True
    rep.instance("U3", "expr_has_unique_constraint@Eq@sides", {"some_test_relates_both_arguments": joint})
    if not joint:
        rep.violation(
            "U3",
            "expr_has_unique_constraint@Eq@sides",
            "the Eq arm reads each argument on its own: nothing requires the other argument to belong to the other input, so `l.k = l.k` (or `l.k = l.v + 1`) with l.k unique flags the left key as a join key",
            where,
        )


# ------------------------------------------------------------------------------------------------ U4 / U0


def u4(rep, src):
    rep.rule(
        "U4",
        "Values::schema: Some(Constraint::Unique) only in the true branch of a flag defined as `<values collected into a set>.len() == <number of values>` over the `values` parameter; None otherwise",
        floor=2,
        necessary="a literal list with a repeated value declared UNIQUE",
    )
    from .canon import canon_view

    f = canon_view(inherent(src, "schema", "Values"), src)  # named locals / helpers / early returns are transparent
    vp = [p["pat"]["name"] for p in f.params if "Value" in p["ty"]]
    lets = {l["pat"]["name"]: l["init"] for l in find(f.body, "let") if l["pat"]["k"] == "ident" and l.get("init") is not None}
    sites = [(x, g) for x, g in walk_guards(f.body) if x["k"] == "call" and show(x, 0) in ("Some(Constraint::Unique)", "Some(Constraint::PrimaryKey)")]
    # `flag.then_some(Constraint::Unique)` is `if flag { Some(Constraint::Unique) } else { None }`
    for x, g in walk_guards(f.body):
        if x["k"] == "mcall" and x["m"] in ("then_some", "then") and len(x["args"]) == 1 and show(x["args"][0], 0).replace(" ", "").replace("||", "") in ("Constraint::Unique", "Constraint::PrimaryKey"):
            sites.append((x, tuple(g) + (("if", x["recv"], True),)))
    if not sites or len(vp) != 1:
        rep.undecidable("U4", "Values::schema@site", "no Some(Constraint::Unique) site / values parameter found", f.where())
        return
    for x, guards in sites:
        ifs = [g for g in guards if g[0] == "if"]
        ok = False
        why = "not under an `if <flag>`"
        if ifs:
            g = ifs[-1]
            c = g[1]
            pol = g[2]
            while c["k"] == "unary" and c["op"] == "!":
                c, pol = c["e"], not pol
            if c["k"] == "path" and c["p"] in lets:
                c = lets[c["p"]]
            if not pol:
                why = "created in the branch where the distinctness test is false"
            elif c["k"] == "binary" and c["op"] == "==":
                sides = [c["lhs"], c["rhs"]]
                def is_len(e):
                    return e["k"] == "mcall" and e["m"] in ("len", "count") and vp[0] in names_in(e)
                def dedup(e):
                    s = show(e, 0) + " ".join(m.get("turbofish") or "" for m in find(e, "mcall"))
                    return "HashSet" in s or "BTreeSet" in s or ".unique()" in s  # `.dedup()` only removes adjacent repeats: not a distinctness test
                if all(is_len(s) for s in sides) and sum(1 for s in sides if dedup(s)) == 1:
                    ok, why = True, "set size == list size"
                else:
                    why = "the flag is not `<set of values>.len() == <list of values>.len()`: %s" % show(c, 100)
            else:
                why = "the distinctness test is `%s`, not an equality of sizes" % show(c, 100)
        rep.instance("U4", "Values::schema@unique", {"site": show(x, 40), "accepted": ok, "as": why})
        if not ok:
            rep.violation("U4", "Values::schema@unique", "Unique on a literal list is not conditioned on distinctness: %s" % why, "src/%s:%d" % (RM, x["l"]))
    for s in find(f.body, "if"):
        tv = block_value(s["then"])
        if tv is not None and show(tv, 0).startswith("Some(Constraint::"):
            ev = block_value(s["else"]) if s.get("else") else None
            rep.instance("U4", "Values::schema@else", {"else": show(ev, 30)})
            if ev is None or path_of(ev) != "None":
                rep.violation("U4", "Values::schema@else", "the alternative of the distinctness test is not None", "src/%s:%d" % (RM, s["l"]))


def u5(rep, src):
    rep.rule(
        "U5",
        "the key-uniqueness predicate Field::has_unique_or_primary_key_constraint (read by Join::schema and by the DP count multiplicity) is true exactly for Some(Unique) and Some(PrimaryKey) "
        "over the four cases None / Unique / PrimaryKey / ForeignKey of Field::constraint(), and Field::constraint() returns the stored field",
        floor=5,
        necessary="a ForeignKey column (repeated values by nature) read as a unique join key keeps the other side's UNIQUE flags through a one-to-many join",
    )
    F = "relation/field.rs"
    f = src.one_fn(name="has_unique_or_primary_key_constraint", file=F)
    g = src.one_fn(name="constraint", file=F)
    gt = block_value(g.body)
    rep.instance("U5", "Field::constraint", {"returns": show(gt, 40)})
    if gt is None or show(gt, 0).replace(" ", "") not in ("self.constraint", "self.constraint.clone()"):
        rep.violation("U5", "Field::constraint", "Field::constraint() does not return the stored constraint: %s" % show(gt, 60), g.where())
    t = block_value(f.body)
    cases = {"None": None, "Unique": None, "PrimaryKey": None, "ForeignKey": None}

    def pat_cases(p):
        if p["k"] == "or":
            out = set()
            for c in p["cases"]:
                r = pat_cases(c)
                if r is None:
                    return None
                out |= r
            return out
        if p["k"] == "wild":
            return set(cases)
        if p["k"] == "binary" and p.get("op") == "|":  # a pattern inside matches!(..) is parsed as an expression
            l, r = pat_cases(p["lhs"]), pat_cases(p["rhs"])
            return None if l is None or r is None else l | r
        if p["k"] == "paren":
            return pat_cases(p["e"])
        if p.get("_none"):
            return {"None"}
        t = show(p, 0).replace(" ", "")
        if t == "None":
            return {"None"}
        if t in ("Some(_)",):
            return {"Unique", "PrimaryKey", "ForeignKey"}
        for v in ("Unique", "PrimaryKey", "ForeignKey"):
            if t == "Some(Constraint::%s)" % v:
                return {v}
        m = re.match(r"^Some\(((Constraint::\w+\|?)+)\)$", t)  # Some(Constraint::Unique | Constraint::PrimaryKey)
        if m:
            vs = {x.split("::")[1] for x in m.group(1).split("|")}
            return vs if vs <= {"Unique", "PrimaryKey", "ForeignKey"} else None
        return None

    arms = None
    if t is not None and t["k"] == "match" and show(t["e"], 0).replace(" ", "") in ("self.constraint()", "self.constraint"):
        arms = [(a["pat"], a.get("guard"), show(block_value(a["body"]) if a["body"]["k"] == "block" else a["body"], 0).strip()) for a in t["arms"]]
    elif t is not None and t["k"] == "macro" and t.get("name", "").endswith("matches") and t.get("args") and show(t["args"][0], 0).replace(" ", "") in ("self.constraint()", "self.constraint"):
        arms = [(t["args"][1], None, "true"), ({"k": "wild"}, None, "false")] if len(t["args"]) == 2 else None
    elif t is not None and show(t, 0).replace(" ", "") in ("self.has_constraint()", "self.constraint.is_some()", "self.constraint().is_some()"):
        arms = [({"k": "lit", "t": "x", "v": "None", "_none": 1}, None, "false"), ({"k": "wild"}, None, "true")]
    if arms is None:
        rep.undecidable("U5", "Field::has_unique_or_primary_key_constraint", "not a match / matches! on self.constraint(): %s" % show(t, 80), f.where())
        return
    for p, guard, val in arms:
        cs = pat_cases(p)
        if cs is None or guard is not None or val not in ("true", "false"):
            rep.undecidable("U5", "Field::has_unique_or_primary_key_constraint", "cannot read arm %s => %s" % (show(p, 40), val), f.where())
            return
        for c in cs:
            if cases[c] is None:
                cases[c] = val == "true"
    want = {"None": False, "Unique": True, "PrimaryKey": True, "ForeignKey": False}
    for c, w in want.items():
        key = "has_unique_or_primary_key_constraint@" + c
        rep.instance("U5", key, {"constraint": c, "returns": cases[c], "expected": w})
        if cases[c] != w:
            rep.violation("U5", key, "has_unique_or_primary_key_constraint is %s for a field whose constraint is %s" % (cases[c], c), f.where())


EXPECTED_SITES = {
    "Map::schema_exprs": "U1: input column modulo bijection / row-unique generator",
    "Reduce::schema_aggregate": "U2: group key",
    "JoinOperator::filtered_schemas": "copies each input field's own constraint into the per-side schema consumed by Join::schema (U3 decides what survives)",
    "Join::schema": "U3: kept under the other side's key uniqueness",
    "Values::schema": "U4: distinct literals",
}


def u0(rep, src):
    rep.rule(
        "U0",
        "inventory: in relation/mod.rs (non-test) a Field is given a constraint (Field::new with a third argument other than None, `.with_constraint(..)`, Field::from of a triple) only in "
        + ", ".join(sorted(EXPECTED_SITES))
        + " — the sites decided by U1–U4",
        floor=5,
        necessary="a further site (e.g. Set::schema copying the left constraint through a UNION) propagates uniqueness where nothing proves it",
    )
    for f in src.fns:
        if f.test or not f.body or f.file != RM:
            continue
        for c in walk(f.body):
            hit = None
            if is_call_to(c, "Field::new") and len(c["args"]) == 3 and show(c["args"][2], 0) != "None":
                hit = show(c["args"][2], 70)
            elif c["k"] == "mcall" and c["m"] == "with_constraint":
                hit = show(c, 70)
            elif is_call_to(c, "Field::from") and c["args"] and c["args"][0]["k"] == "tuple" and len(c["args"][0]["elems"]) == 3:
                hit = show(c, 70)
            if hit is None:
                continue
            site = f.qual
            if site not in EXPECTED_SITES and (f.node.get("vis") or "") == "":
                # a private helper belongs to the reviewed site(s) it is called from (an extracted piece of that site)
                callers = {g.qual for g in src.fns if not g.test and g.body and g.file == RM and g is not f and any((x["k"] == "call" and (path_of(x["f"]) or "").split("::")[-1] == f.name) or (x["k"] == "mcall" and x["m"] == f.name) for x in walk(g.body))}
                if callers and callers <= set(EXPECTED_SITES):
                    site = sorted(callers)[0]
            rep.instance("U0", "%s@%d" % (f.qual, c["l"]), {"in": f.qual, "constraint": hit, "counted_with": site})
            if site not in EXPECTED_SITES:
                rep.violation("U0", f.qual, "%s attaches a constraint to a derived field (%s): not one of the reviewed sites" % (f.qual, hit), "src/%s:%d" % (RM, c["l"]))


# engines whose RAND() without argument is evaluated once per statement (reviewed: SQL Server documents RAND() as constant within a query unless seeded per row)
PER_STATEMENT_RAND = {"mssql": "SQL Server evaluates RAND() once per query; the per-row idiom is RAND(CHECKSUM(NEWID()))"}


def u7(rep, src):
    """A column declared UNIQUE because it is `random()` is drawn once per row by the SQL the engine runs."""
    from .core import find, walk, show, path_of, is_call_to

    rep.rule(
        "U7",
        "dialect_translation/mssql.rs: `random()` is rendered with a per-row seed - the arguments of the rendered RAND(..) are not empty and contain NEWID() (reviewed table PER_STATEMENT_RAND: "
        "engines whose argument-less RAND() is evaluated once per statement)",
        floor=1,
        necessary="Map::schema_exprs marks an expression that is `random()` UNIQUE (Function::is_unique); on SQL Server `SELECT RAND() AS r, a FROM t` gives every row the same r: a column declared UNIQUE holds one value",
    )
    for d, why in PER_STATEMENT_RAND.items():
        key = "%s::random" % d
        fs = [f for f in src.find_fns(name="random", file="dialect_translation/%s.rs" % d) if f.body and not f.test and (f.trait or "").startswith("RelationToQueryTranslator")]
        if len(fs) != 1:
            rep.instance("U7", key, {"dialect": d, "override": False})
            rep.violation("U7", key, "the %s translator has no `random` of its own: the trait default renders an argument-less call (%s)" % (d, why), "src/dialect_translation/%s.rs" % d)
            continue
        f = fs[0]
        lets = {l["pat"]["name"]: l["init"] for l in find(f.body, "let") if l["pat"]["k"] == "ident" and l.get("init") is not None}

        def expand(e, depth=0):
            out = [e]
            if depth < 4:
                for x in walk(e):
                    if x["k"] == "path" and len(x["segs"]) == 1 and x["segs"][0] in lets:
                        out += expand(lets[x["segs"][0]], depth + 1)
            return out

        tail = f.body
        while tail["k"] == "block" and tail["stmts"] and tail["stmts"][-1]["k"] == "expr":
            tail = tail["stmts"][-1]["e"]
        args = tail["args"][1] if tail["k"] == "call" and (path_of(tail["f"]) or "").endswith("function_builder") and len(tail["args"]) >= 2 else None
        if args is None:
            rep.undecidable("U7", key, "the rendered call is not `function_builder(NAME, ARGS, ..)`: %s" % show(tail, 80), f.where())
            continue
        texts = [show(x, 0) for e in expand(args) for x in walk(e)]
        empty = show(args, 0).replace(" ", "") in ("vec![]", "vec!()", "Vec::new()")
        per_row = any("NEWID" in t.upper() for t in texts)
        rep.instance("U7", key, {"dialect": d, "arguments": show(args, 60), "per_row_seed": per_row and not empty})
        if empty or not per_row:
            rep.violation("U7", key, "%s renders random() as %s(%s) without a per-row seed: %s" % (d, show(tail["args"][0], 20), show(args, 40), why), f.where())


def run(rep):
    rep.explanation = (
        "Static table / decision-term check (syn AST of the current tree). Decides: the functions through which Map keeps a UNIQUE constraint are injective per the reviewed table, unary, and "
        "the reduction only descends through them (U1); the Unique flag of a Reduce output is a First aggregate with a single-group or input-unique reason and depends on the grouping (U2); "
        "a Join keeps a side's constraints only under the other side's key uniqueness, through Eq/And only (U3); Values is unique iff its literals are distinct (U4); no other site of "
        "relation/mod.rs attaches constraints (U0). Does NOT decide that base tables honour their constraints, floating-point collisions of exp/ln/log/sqrt, nor the SQL-level column resolution feeding these constructors."
    )
    src = Src(facts.src_facts())
    u1(rep, src)
    u2(rep, src)
    u3(rep, src)
    u4(rep, src)
    u5(rep, src)
    u7(rep, src)
    from .c15 import h8

    h8(rep, src)
    u0(rep, src)
    rep.extra["injective_table"] = INJECTIVE
    rep.assume("rustc accepts the tree (the syn facts are parsed from the same files the build uses)")
    rep.assume("qv/c14_injective.py: injectivity is over SQL values; rounding collisions of exp/ln/log/sqrt on adjacent doubles and md5 collisions are out of scope (DESIGN §3/C14)")
