"""Which rules of other properties each property adopts (core.import_rules), and why.

A property P adopts a rule R of Q only when R is ALSO a necessary condition of P: P's guarantee is built on the mechanism R decides, so a tree that
violates R has an input on which P fails.  Each line carries that argument.  The adopted rule is the same code reading the same tree (reported under P
as `Q.R`); a finding recorded for (Q, R, key) in known_findings.json is the same defect under P.  Imports are not transitive.

Where only some instances of a rule matter to P the import is restricted by a key regex; rules whose recorded findings do NOT break P are left out
(listed under NOT adopted) so that no KNOWN-FINDING line claims a defect of P that is not one.
"""

IMPORTS = {
    "C01": [
        # NOT adopted: C05/Y7 (unit id NULL on unmatched RIGHT/FULL rows): such rows get a NULL scale factor and contribute nothing - no C01 failure.
        ("C05", ["Y1", "Y1b", "Y2", "Y3", "Y4", "Y5", "Y6", "Y8", "T5", "B1"], None,
         "clipping and sigma are calibrated per value of the privacy-unit column: when a tracked row mixes the data of two units (join without unit equality, "
         "aggregation not grouped by the unit, wrong foreign-key hop) or a protected table is not tracked at all, one unit moves rows that are clipped under "
         "other identifiers and C no longer bounds its influence on the noised sums"),
    ],
    "C02": [
        # NOT adopted: C04/K1, K6 (the calibration of tau): a key released above a too low threshold is still thresholded - C04's matter, not a plain function of protected rows
        ("C04", ["K2", "K3", "K4", "K5", "K7", "K8", "B1", "B2", "B3"], None,
         "the grouping-key columns of a DP result are plain functions of protected rows: they may leave only through the tau-thresholding pipeline "
         "(cap, count of units, noise, strict threshold, projection) or from declared public values"),
        ("C13", ["G1", "G2", "G4"], None,
         "the label invariants of the rule table (T1) speak about the labels of a node's children: they protect the result only if the rule applied to a node "
         "is selected against the labels its own children actually got, position by position"),
        ("C01", ["S1"], r"@empty-branch|@linear",
         "a 'noise-adding aggregation' adds noise: the sums leave gaussian_mechanisms un-noised only when there is no aggregate, and sigma is the strictly positive multiple "
         "multiplier x bound (a sigma sanitised to 0 is an un-noised path)"),
    ],
    "C03": [
        ("C04", ["K6"], None,
         "'thresholding is recorded with at least the epsilon and delta it used': the delta a threshold really spends is fixed by its value - a tau below "
         "1 + sigma * Phi^-1((1-delta)^(1/Cu)) spends more than the recorded delta"),
    ],
    "C04": [
        ("C03", ["V3"], r"group_by",
         "the threshold must be at least the tau required by the (epsilon, delta) SHARE reserved for key release: the budget handed to differentially_private_group_by is "
         "the reserved share of both parameters (a tau computed from another share is calibrated for another delta)"),
    ],
    "C05": [
        ("C02", ["T2"], None,
         "the tracker methods only run when the Rewriter dispatches a rule to them: a rule `(Published, PUP) -> PUP` that the Rewriter's match sends to the pass-through arm rebuilds the join as a plain join - "
         "its output carries no unit id although it is labelled privacy-unit preserving"),
    ],
    "C06": [
        # NOT adopted: C12/J2 (images checked against the co-domain).  An unchecked image is still a superset of the values; it matters to C06 only when the
        # function's own domain test is gone as well, which is what C06/D decides (one of the two guards is enough).
        ("C12", ["J4"], None,
         "a function applied to an argument of another variant first converts the argument SET with the injection (set.into_data_type(&domain)): "
         "an image computed from interval ends by a conversion that is not monotone (or not dense) misses values, and the propagated range misses their results"),
    ],
    "C07": [
        ("C06", None, None, "the declared type of a Map / Reduce column IS the range propagated for its expression (Map::schema_exprs, Reduce::schema_aggregate)"),
        ("C12", ["J4"], None, "as for C06: argument sets are converted with the injections before the range is propagated"),
        ("C14", None, None,
         "Join::size bounds the row count by max(|left|, |right|) instead of the product as soon as a join key is declared UNIQUE / PRIMARY KEY "
         "(JoinOperator::has_unique_constraint reads the field constraints): a column wrongly declared unique makes the declared size interval too small"),
        ("C15", ["H5"], None, "a table reference bound to another CTE of the same name gives the relation the schema (and size) of another query"),
        ("C08", ["E25"], None, "the WHERE narrowing of Map::schema_exprs is computed from the predicate as read: a negated predicate read as the plain one declares x: int[3 7] for rows that are all outside [3, 7]"),
        ("C08", ["E22"], None, "the operands of a set operation are compiled in the order written: `A EXCEPT B` read as `B EXCEPT A` declares B's column types and size for rows that come from A"),
    ],
    "C08": [
        ("C15", None, None, "reading SQL binds every table and column name: a name bound to another candidate gives a relation - hence a rendering - with another meaning"),
    ],
    "C09": [
        ("C07", ["Z2"], None,
         "the noisy sums are clamped to the type of the sum column, range x [0, size]: a size interval below the real row count truncates exact results"),
        ("C06", ["M", "P", "A", "O2", "S"], None,
         "the clipping constant is the bound of the range propagated for the aggregated expression (times the multiplicity) and the result is clamped to the "
         "propagated type: a range that misses values the expression takes clips / clamps in-range data"),
        ("C01", ["S2", "S3"], None,
         "'clipping is inactive when no unit exceeds the bound': the factor must be exactly 1 / max(1, norm / C) of the true L2 norm (sum by unit and group, square, sum by unit, SQRT) - "
         "a norm that misses its square root, or another factor term, scales down units that are within the bound"),
        ("C05", ["Y1", "Y1b", "Y5", "Y7"], None,
         "the DP aggregation runs over the privacy-unit-tracked input: the tracked join must keep the query's own operator and ON condition (the unit equality is conjoined, not substituted) or rows are "
         "duplicated / lost; rows whose unit id is NULL get a NULL scale factor (NULL = NULL is not true in the join with the factors) and vanish from every sum"),
        ("C04", ["B3"], None,
         "the DP aggregation runs over the tracked copy of the query's maps (`Relation::map().with(..).with(map.clone())`): a re-builder that loses the WHERE of the map it copies "
         "makes the rewritten query aggregate rows the original discards"),
        ("C04", ["K5"], None,
         "'public keys left-joined so that empty groups still appear': the aggregation input is the LEFT JOIN of the grouping values with the tracked rows on equality of every key - "
         "another condition gives every group the rows of the others"),
    ],
    "C10": [
        ("C08", ["E25"], None, "the predicate that reaches DataType::filter is the one the SQL reader built: a NOT BETWEEN / NOT IN / NOT LIKE read without its negation narrows the column to the rows the clause rejects"),
        ("C11", ["N1"], None, "a comparison between a date and a datetime column converts the date type through its enumerated values (into_values): an enumeration that stops one day early narrows "
         "`d >= s` to a type without the last day - the row holding it satisfies the predicate and is dropped"),
        ("C11", ["L3", "L5", "L8"], r"super_(union|intersection)",
         "the And / Or / comparison arms combine column types with super_intersection / super_union and test is_subset_of: an approximate union that loses a "
         "value (the NULL of an optional operand) loses the rows holding it"),
        ("C06", ["M", "S"], r"function::(greatest|least)\b",
         "the comparison arms replace a column by greatest(l, r) / least(l, r) intersected with its own type: the ranges of these two functions must be sound"),
    ],
    "C11": [
        # NOT adopted: C12/J2 - the cross-variant arms re-test `image.is_subset_of(other)`; an arm that trusts the injection instead (`.is_ok()`) is tied to J2 by C11/L3 itself.
        # J4 only for pairs dispatched from Base<X, DataType> (the API-only pair DateTime -> Date is not reachable from the lattice operations)
        ("C12", ["J9"], None, "is_subset_of decides `(s, Null)` and the other cross-variant pairs by injecting s into the other type: an injection that accepts the empty type for a non-empty set "
         "answers `bool is a subset of null`"),
        ("C12", ["J8"], None, "super_union / super_intersection of two different variants loop on into_common_super_variant, which converts with `other.maximal_superset()`: a variant left to the default arm "
         "(Any) is never brought into the other's variant and the union of date and datetime recurses until the stack overflows instead of answering datetime"),
        ("C12", ["J4"], r"@dispatched", "the cross-variant arms of is_subset_of / super_union / super_intersection convert one side with the injection: an image that misses values of the converted side loses them from the union / answers `subset` wrongly"),
    ],
    "C12": [
        ("C11", ["L10"], None, "lifting a value into a container type (Base<X, List> .. value) wraps it and relies on `co_domain.contains(..)` to refuse what the type does not admit: "
         "a `contains` that skips a component returns a converted value that is not in the converted type"),
    ],
    "C13": [
        ("C05", ["T5"], None,
         "the rules are attached by RewritingRulesSetter::table and applied by PrivacyUnitTracking::table: when the two do not select the protected tables with the same predicate, "
         "a derivation that the search found is refused when it is applied - the compiler aborts although a consistent derivation exists"),
    ],
    "C14": [
        ("C04", ["B4"], None, "the UNIQUE flag of a group key is computed from the aggregates (the single First(..) column) and stays on the rebuilt Reduce: a re-builder that loses the GROUP BY leaves a column declared "
         "UNIQUE over an ungrouped input"),
        ("C08", ["E9"], None,
         "the property is about the EXECUTED result: the uniqueness flags are computed on the expression tree of the ON clause, the engine runs its rendering - "
         "an operand that loses its parentheses (`k AND a OR b`) makes the executed join match other rows than the one the flags were computed for"),
    ],
    "C15": [
        ("C08", ["E10"], None,
         "'looking up a name yields the entry with exactly that path if there is one': in GROUP BY a name that is exactly an input column designates that column; "
         "the select alias of the same name is only a fallback (guarded by a failed column lookup)"),
    ],
    "C16": [
        # NOT adopted: E10, E11, E15 decide how SQL is READ (GROUP BY alias, WHERE of the builders, split order): a mis-read query still renders and re-reads
        # to the same relation, so C16's fixpoint holds.
        ("C08", ["E3", "E4", "E5", "E7", "E8", "E9", "E12", "E13", "E16", "E17", "E18", "E20", "E21", "E23", "E26"], None,
         "re-parsing the rendered SQL must reproduce the semantics and the output schema of the relation it came from: every operator is rendered under a spelling "
         "read back as the same operator, every node component, alias, parenthesis, CASE branch and CTE is rendered where the reader expects it"),
    ],
    "C17": [
        ("C16", ["D5"], None, "CTEs are named by content hashes (namer::name_from_content): two different nodes with one hash are two CTEs of one name - invalid SQL in every dialect"),
    ],
    "C18": [
        ("C08", ["E3"], None, "rendering is part of the compilation: an operator the reader or the rewritings produce and the renderer routes to its `_ => todo!()` arm makes `ast::Query::from(&relation)` abort"),
        ("C01", ["S3"], r"@factor-zero",
         "the `C == 0` arm of the clip factor keeps 0 / 0 out of range propagation: the image of `divide` on a denominator reduced to {0} aborts (finding C06/M divide), "
         "so the DP rewriting of a column whose bound is 0 panics without it"),
        ("C15", ["H5"], None,
         "a CTE reference re-pointed to its own enclosing CTE makes the query its own dependency: the acceptor meets a `Visit` state and panics; "
         "re-pointed to a homonymous CTE it makes the Map constructor unwrap an InvalidPath"),
    ],
}


def apply(rep):
    from . import core

    for origin, rules, keys, reason in IMPORTS.get(rep.prop, []):
        core.import_rules(rep, origin, rules=rules, reason=reason, keys=keys)
