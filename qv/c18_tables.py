"""Reviewed table for C18/P2: unchecked i64 arithmetic sites that are safe by a local invariant.
Key = '<function def path>|<op>' (all sites of that op in that function); value = the invariant."""

SAFE_ARITH = {
    "<data_type::intervals::Intervals<i64> as data_type::intervals::Values<i64>>::values_len|overflow:Neg": "operand is `self.capacity as i64` (a small positive container capacity, default 128): -capacity cannot overflow",
    "<data_type::intervals::Intervals<i64> as data_type::intervals::Values<i64>>::values_len|overflow:Sub": "both operands were clamped to [-capacity, capacity] on the two previous lines",
    "data_type::function::extract_microsecond::{closure}|overflow:Mul": "operand is chrono second() in [0, 59] times the constant 1_000_000",
    "data_type::function::extract_microsecond::{closure}|overflow:Add": "second()*1e6 <= 59e6 plus nanosecond()/1000 < 2e6",
    "data_type::function::extract_microsecond::{closure}|divzero": "divisor is the literal 1_000",
}
