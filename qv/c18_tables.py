"""Reviewed table for C18/P2: unchecked i64 arithmetic sites that are safe by a local invariant.
Key = '<function def path>|<op>' (all sites of that op in that function); value = the invariant."""

SAFE_ARITH = {
    "data_type::function::extract_microsecond::{closure}|overflow:Mul": "operand is chrono second() in [0, 59] times the constant 1_000_000",
    "data_type::function::extract_microsecond::{closure}|overflow:Add": "second()*1e6 <= 59e6 plus nanosecond()/1000 < 2e6",
    "data_type::function::extract_microsecond::{closure}|divzero": "divisor is the literal 1_000",
}
