"""C03 — privacy loss is never under-reported.

V1 (MIR flow)  no DpEvent is discarded: every event that appears in a body (owned parameter, result of an event-producing
               call, closure returning events) may reach the body's return place.
V2 (AST terms) at each mechanism site the budget used to calibrate the noise / tau is <= the budget of the event built in the
               same function; one event per noised column.
V3 (AST terms) budget conservation along the hand-off chain: tau share s / aggregation share (1-s) of the same parameters,
               `from_dp_parameters` multiplies by the share, `split(n)` divides by max(n,1) with n = number of mechanisms run,
               every other hand-off passes the budget unchanged (or smaller).
"""
from . import facts
from .core import Src, Anchor, find, walk, walk_guards, show, path_of, is_call_to, strip_generics
from .flow import Taint
from .mir import Mir
from .util_dpflow import (
    EventFlow,
    carrier_names,
    short_path,
    FnEnv,
    Term,
    norm,
    budget_le,
    count_of,
    callee_name,
    chain_root,
    strip_wrappers,
    pat_ident,
    contains,
    SeedTaint,
    strip_try,
    _tail_expr,
    _closures,
)

LEVEL = "other"
EXHAUSTIVE = False

DP = "differential_privacy/"
PARAM_STRUCTS = ("DpParameters", "DpAggregatesParameters")

# bodies that DESIGN §3/C03 names: the rule must have seen each of them (anchor)
V1_ANCHORS = [
    r"RewriteVisitor<'a>>::table",
    r"RewriteVisitor<'a>>::map",
    r"RewriteVisitor<'a>>::reduce",
    r"RewriteVisitor<'a>>::join",
    r"RewriteVisitor<'a>>::set",
    r"RewriteVisitor<'a>>::values",
    r"differential_privacy::<impl relation::Reduce>::differentially_private",
    r"aggregates::<impl relation::Reduce>::differentially_private_aggregates",
    r"aggregates::<impl privacy_unit_tracking::PupRelation>::differentially_private_aggregates",
    r"aggregates::<impl privacy_unit_tracking::PupRelation>::differentially_private_sums",
    r"aggregates::<impl relation::Relation>::gaussian_mechanisms",
    r"group_by::<impl privacy_unit_tracking::PupRelation>::dp_values",
    r"group_by::<impl privacy_unit_tracking::PupRelation>::tau_thresholding_values",
    r"group_by::<impl relation::Reduce>::differentially_private_group_by",
    r"dp_parameters::DpParameters::reduce",
    r"dp_event::DpEvent::compose",
]


# =========================================================================== V1


def v1(rep, src, mir):
    rep.rule(
        "V1",
        "no DpEvent is discarded (MIR, every body of the crate whose return type can carry an event): each owned event-carrying value that "
        "appears in the body - a by-value parameter, the result of a call that received no event (a mechanism or a helper that produced one), "
        "a closure that returns events, a moved capture - reaches the return place `_0` through moves, copies, field projections, "
        "borrows + clone, `?`, From/Into, DpEvent::compose, constructors and iterator adaptors (call arguments taint call results; only "
        "event-carrying types hold an event; whole-variable assignment forgets the previous content): on some path for every origin, and - when the origin's "
        "type is itself DpEvent / DpRelation / RelationWithDpEvent (possibly in Result/Option/tuple) - on every path that returns normally "
        "(paths that store an Err / `?` residual into `_0`, or that follow the true branch of `<that event>.is_no_op()`, are exempt). `DpEvent::no_op()` results are exempt.",
        floor=40,
        necessary="an event that reaches the returned value on no path is privacy loss spent by the rewritten query and absent from the reported DpEvent",
    )
    names = carrier_names(src)
    if not {"DpEvent", "DpRelation", "RelationWithDpEvent"} <= names:
        raise Anchor("carrier types: expected DpEvent, DpRelation, RelationWithDpEvent to carry an event, found %s" % sorted(names))
    ef = EventFlow(mir, names)
    seen_paths = []
    sinks = []
    per_body = []
    for b in mir.bodies:
        r = ef.analyse(b)
        if not r["origins"]:
            continue
        ret_carrier = ef.is_carrier(ef.lty(b, 0))
        sp = short_path(b["path"])
        if not ret_carrier:
            owned = [o for o in r["origins"] if o["kind"] in ("param", "upvar")]
            if owned:
                sinks.append({"body": sp, "where": "%s:%d" % (b["file"], b["line"]), "consumes": [o["what"] for o in owned]})
            continue
        if not r["returns"]:
            continue
        seen_paths.append(b["path"])
        row = {"body": sp, "where": "%s:%d" % (b["file"], b["line"]), "origins": []}
        counts = {}
        for o in r["origins"]:
            if o["kind"] == "call" and "FromResidual" in o.get("callee", ""):
                continue  # the `Err` residual of `?`: holds an error, never an event
            label = o["name"] and ("param " + o["name"]) if o["kind"] == "param" else short_path(o.get("callee") or o["what"])
            if o["kind"] == "param" and not o["name"]:
                label = o["what"]
            key = "%s@%s" % (sp, label)
            counts[key] = counts.get(key, 0) + 1
            ok = o["id"] in r["reached"]
            lost = r["lost"].get(o["id"])
            held = sorted(r["holders"].get(o["id"], ()))
            sample = {"body": sp, "origin": short_path(o["what"]), "line": o["line"], "may_reach_return": ok, "must_reach_checked": bool(o.get("direct")), "held_by": held}
            row["origins"].append(sample)
            rep.instance("V1", "%s#%d" % (key, counts[key]), sample, nontrivial=not o["trivial"])
            where = "%s:%d" % (b["file"], o["line"])
            last = (", last held by " + ", ".join("`%s`" % h for h in held)) if held else ""
            if o["trivial"]:
                continue
            if not ok:
                rep.violation("V1", key, "the event held by %s (line %d%s) reaches the return value of %s on no path: it is dropped from the reported DpEvent" % (short_path(o["what"]), o["line"], last, sp), where)
            elif lost == "undecided":
                rep.undecidable("V1", key, "too many paths to decide whether the event held by %s reaches the return value of %s on every normally-returning path" % (short_path(o["what"]), sp), where)
            elif lost:
                rep.violation(
                    "V1",
                    key,
                    "the event held by %s (line %d%s) is dropped on a normally-returning path of %s (a path that neither returns an error nor tested the event with is_no_op())" % (short_path(o["what"]), o["line"], last, sp),
                    where,
                )
        per_body.append(row)
    import re

    for pat in V1_ANCHORS:
        if not any(re.search(re.escape(pat) + r"$", p) for p in seen_paths):
            raise Anchor("V1: no analysed body matches `%s` (renamed / no longer returns an event?)" % pat)
    rep.extra["V1_bodies"] = per_body
    rep.extra["V1_event_sinks"] = sinks
    # a call to a sink from an analysed body kills the taint there and is reported at the call site;
    # the sinks themselves (non-carrier return type) cannot return an event and are listed for the reader.


# =========================================================================== V2

MECH = ("gaussian_noise", "gaussian_tau")
EVENT_CTORS = ("gaussian_from_epsilon_delta", "epsilon_delta")
OPAQUE_EVENT_CTORS = ("gaussian", "laplace")
ITER_OK = {"iter", "into_iter", "map", "collect", "into", "cloned", "copied"}


def is_dp_event_call(n, names):
    if n["k"] != "call":
        return False
    p = path_of(n["f"])
    if not p:
        return False
    segs = strip_generics(p).split("::")
    return len(segs) >= 2 and segs[-2] in ("DpEvent", "Self") and segs[-1] in names


def is_mech_call(n):
    if n["k"] != "call":
        return False
    p = path_of(n["f"])
    if not p:
        return False
    segs = strip_generics(p).split("::")
    # `dp_event::gaussian_noise(..)` or the bare imported name; `Expr::gaussian_noise()` is the SQL random-normal builder
    return segs[-1] in MECH and (len(segs) == 1 or segs[-2] == "dp_event")


def v2(rep, src):
    rep.rule(
        "V2",
        "budget agreement at each mechanism site: for every call gaussian_noise(e,d,_) / gaussian_tau(e,d,_) the same function builds its event "
        "DpEvent::{gaussian_from_epsilon_delta, epsilon_delta}(e',d') with e <= e' and d <= d' as terms over the function's parameters "
        "(identical, a literal factor <= 1, or divided by a count >= 1: `xs.len() as f64` under a `> 0` guard or inside the iteration over xs, `max(n,1) as f64`); "
        "when the noises are computed per element of a collection xs, e and d are divided by xs.len() and the events are built per element of the same collection (no take/skip/filter)",
        floor=5,
        necessary="the recorded Gaussian multiplier / (epsilon, delta) is decreasing in the budget: an event built from a smaller budget than the one used to calibrate sigma or tau under-reports the loss",
    )
    sites = 0
    for f in src.fns:
        if f.test or f.body is None:
            continue
        if f.name in MECH or f.name in ("gaussian_noise_multiplier",):
            continue  # the calibration helpers themselves
        mechs = [(n, g) for n, g in walk_guards(f.body) if is_mech_call(n)]
        if not mechs:
            continue
        env = FnEnv(f)
        fq = f.qual
        ctors = [n for n in walk(f.body) if is_dp_event_call(n, EVENT_CTORS)]
        opaque = [n for n in walk(f.body) if is_dp_event_call(n, OPAQUE_EVENT_CTORS)]
        for n in opaque:
            rep.undecidable("V2", "%s@DpEvent::%s" % (fq, callee_name(n)), "event built from a raw noise multiplier %s beside a mechanism call: cannot relate it to the budget" % show(n), "src/%s:%d" % (f.file, n["l"]))
        if not ctors:
            rep.violation("V2", "%s@no-event" % fq, "%s calls %s but builds no DpEvent from (epsilon, delta) in the same function" % (fq, ", ".join(sorted({callee_name(m) for m, _ in mechs}))), f.where())
        closures = [(c, owner) for c, owner in _closures(f.body)]
        for m, guards in mechs:
            mname = callee_name(m)
            if len(m["args"]) != 3:
                rep.undecidable("V2", "%s@%s" % (fq, mname), "unexpected arity: %s" % show(m), "src/%s:%d" % (f.file, m["l"]))
                continue
            te, td = norm(m["args"][0], env), norm(m["args"][1], env)
            # counts must be >= 1 where the mechanism runs
            for t in (te, td):
                if t.is_prod():
                    for d in t.divs:
                        kind, what = d.split(":", 1)
                        if kind == "len" and not (_len_guarded(what, guards, env) or _inside_iteration_over(m, what, closures, env)):
                            rep.undecidable("V2", "%s@%s/count" % (fq, mname), "budget divided by `%s.len()` which is neither guarded by `> 0` nor the length of the collection being iterated" % what, "src/%s:%d" % (f.file, m["l"]))
            # mechanisms run once per element of a collection share the budget: each gets 1/len of it
            for cl, owner in closures:
                if contains(cl["body"], m) and owner is not None and owner["k"] == "mcall":
                    root, _ms = chain_root(owner)
                    root = strip_wrappers(root)
                    if root["k"] == "path" and len(root["segs"]) == 1:
                        for what, t in (("epsilon", te), ("delta", td)):
                            okd = t.is_prod() and any(d.split(":", 1)[1] == root["p"] for d in t.divs)
                            rep.instance("V2", "%s@%s/split-%s" % (fq, mname, what), {"function": fq, "per_element_of": root["p"], what: repr(t)})
                            if not okd:
                                rep.violation(
                                    "V2",
                                    "%s@%s/split" % (fq, mname),
                                    "%s runs %s once per element of `%s` but the %s it uses, `%r`, is not divided by the number of elements: the mechanisms together exceed the budget the event is built from"
                                    % (fq, mname, root["p"], what, t),
                                    "src/%s:%d" % (f.file, m["l"]),
                                )
            for c in ctors:
                sites += 1
                cname = callee_name(c)
                if len(c["args"]) != 2:
                    rep.undecidable("V2", "%s@%s" % (fq, cname), "unexpected arity: %s" % show(c), "src/%s:%d" % (f.file, c["l"]))
                    continue
                ce, cd = norm(c["args"][0], env), norm(c["args"][1], env)
                key = "%s@%s<=%s" % (fq, mname, cname)
                rep.instance("V2", key + "#%d" % sites, {"function": fq, "mechanism": "%s(%r, %r, _)" % (mname, te, td), "event": "%s(%r, %r)" % (cname, ce, cd)})
                for what, s, b in (("epsilon", te, ce), ("delta", td, cd)):
                    r = budget_le(s, b)
                    if r is None:
                        rep.undecidable("V2", key, "%s: cannot compare the %s used by the mechanism `%r` with the %s of the event `%r`" % (fq, what, s, what, b), "src/%s:%d" % (f.file, m["l"]))
                    elif not r:
                        rep.violation("V2", key, "%s: the mechanism is calibrated with %s = %r but the event records %s = %r (smaller): the loss is under-reported" % (fq, what, s, what, b), "src/%s:%d" % (f.file, c["l"]))
            # one event per noised element
            mc = [c for c, owner in closures if contains(c["body"], m)]
            if mc and ctors:
                # the collection of noises: the let whose initialiser contains the mechanism call
                holder = [nm for nm, init in env.lets.items() if contains(init, m) and env.init_of(nm) is not None]
                ok_any = False
                for c in ctors:
                    cc = [(cl, owner) for cl, owner in closures if contains(cl["body"], c)]
                    for cl, owner in cc:
                        if owner is None or owner["k"] != "mcall":
                            continue
                        root, ms = chain_root(owner)
                        root = strip_wrappers(root)
                        full_root, full_ms = _full_chain(f.body, owner)
                        if root["k"] == "path" and root["p"] in holder and set(full_ms) <= ITER_OK:
                            ok_any = True
                            rep.instance("V2", "%s@per-element" % fq, {"function": fq, "noises": root["p"], "events_over": "%s.%s" % (root["p"], ".".join(full_ms))})
                if not ok_any:
                    rep.violation(
                        "V2",
                        "%s@per-element" % fq,
                        "%s computes one noise per element (collection %s) but the events are not built by a plain iteration (iter/map/collect) over that same collection: a noised column may have no event"
                        % (fq, "/".join(holder) or "?"),
                        "src/%s:%d" % (f.file, m["l"]),
                    )
    return sites


def _full_chain(body, owner):
    """The maximal method chain that contains `owner` (walk up through receivers)."""
    top = owner
    changed = True
    while changed:
        changed = False
        for n in walk(body):
            if n["k"] == "mcall" and strip_try(n["recv"]) is top:
                top = n
                changed = True
                break
    return chain_root(top)


def _len_guarded(what, guards, env):
    for g in guards:
        if g[0] != "if" or g[2] is not True:
            continue
        c = g[1]
        if c["k"] == "binary" and c["op"] in (">", ">="):
            cnt = count_of(c["lhs"], env)
            rhs = c["rhs"]
            if cnt and cnt[1] == what and rhs["k"] == "lit" and rhs["t"] in ("int", "float"):
                v = float(rhs["v"])
                if (c["op"] == ">" and v >= 0) or (c["op"] == ">=" and v >= 1):
                    return True
        if c["k"] == "unary" and c["op"] == "!" and c["e"]["k"] == "mcall" and c["e"]["m"] == "is_empty" and show(strip_wrappers(c["e"]["recv"]), 0) == what:
            return True
    return False


def _inside_iteration_over(node, what, closures, env):
    for cl, owner in closures:
        if contains(cl["body"], node) and owner is not None and owner["k"] == "mcall":
            root, ms = chain_root(owner)
            if show(strip_wrappers(root), 0) == what:
                return True
    return False


# =========================================================================== V3


def struct_ty(ty):
    t = ty.replace(" ", "").lstrip("&")
    if t.startswith("mut"):
        t = t[3:]
    return t if t in PARAM_STRUCTS else None


def budget_slots(f):
    """[(index among non-self params, kind)] with kind in eps / delta / struct; plus ('self','struct')."""
    out = []
    if (f.self_ty or "") in PARAM_STRUCTS and any(p.get("self") for p in f.params):
        out.append(("self", "struct"))
    i = 0
    for p in f.params:
        if p.get("self"):
            continue
        nm = pat_ident(p["pat"])
        ty = p["ty"].replace(" ", "")
        if ty == "f64" and nm == "epsilon":
            out.append((i, "eps"))
        elif ty == "f64" and nm == "delta":
            out.append((i, "delta"))
        elif struct_ty(ty):
            out.append((i, "struct"))
        i += 1
    return out


def nonself_params(f):
    return [p for p in f.params if not p.get("self")]


def caller_atoms(f):
    """kind -> set of atoms naming the caller's own budget."""
    at = {"eps": set(), "delta": set(), "struct": set()}
    for idx, kind in budget_slots(f):
        if idx == "self":
            at["struct"].add("self")
            at["eps"].add("self.epsilon")
            at["delta"].add("self.delta")
            continue
        nm = pat_ident(nonself_params(f)[idx]["pat"])
        if kind == "struct":
            at["struct"].add(nm)
            at["eps"].add(nm + ".epsilon")
            at["delta"].add(nm + ".delta")
        else:
            at[kind].add(nm)
    return at


def v3(rep, src):
    rep.rule(
        "V3",
        "budget conservation along the hand-off chain (terms over the function parameters): (a) Reduce::differentially_private gives P.eps*s, P.delta*s to the key release and "
        "from_dp_parameters(P, if <group-by event>.is_no_op() {1} else {1 - s}) to the aggregates, same P and s; (b) from_dp_parameters multiplies epsilon and delta by its share; "
        "(c) split(n) divides both by max(n,1) and `new`/`with_*` store them unchanged; (d) split receives the length of the collection whose elements each run the aggregation with the split parameters; "
        "(e) every other call from a budget-holding function to a budget-taking function of differential_privacy/* passes epsilon, delta / the parameter struct unchanged or reduced",
        floor=14,
        necessary="a share that does not sum to the whole, a split that does not divide by the number of mechanisms, or a hand-off that enlarges epsilon/delta lets the mechanisms spend more than the (epsilon, delta) the composed event is entitled to",
    )
    validated = set()  # id() of call nodes whose arguments were validated by a specific clause
    ok_struct_roots = set()  # id() of from_dp_parameters calls validated by (a)
    _v3a(rep, src, validated, ok_struct_roots)
    _v3bcd(rep, src)
    _v3e(rep, src, validated)
    _v3f(rep, src, validated, ok_struct_roots)


def _one(src, **kw):
    return src.one_fn(**kw)


def _v3a(rep, src, validated, ok_struct_roots):
    f = _one(src, name="differentially_private", self_ty="Reduce", file=DP + "mod.rs")
    env = FnEnv(f)
    env.helpers = {h.name: h for h in src.fns if h.file == f.file and not h.self_ty and not h.test and h.body and h.name != f.name}  # private helpers of the module are read through by norm()
    fq = f.qual
    ps = [(n, t) for n, t in env.params if struct_ty(t) == "DpParameters"]
    if len(ps) != 1:
        raise Anchor("Reduce::differentially_private: expected one DpParameters parameter")
    P = ps[0][0]
    g = [n for n in walk(f.body) if n["k"] == "mcall" and n["m"] == "differentially_private_group_by"]
    fc = [n for n in walk(f.body) if is_call_to(n, "DpAggregatesParameters::from_dp_parameters")]
    if len(g) != 1 or len(fc) != 1:
        raise Anchor("Reduce::differentially_private: expected one differentially_private_group_by call and one from_dp_parameters call (found %d, %d)" % (len(g), len(fc)))
    g, fc = g[0], fc[0]
    where_g = "src/%s:%d" % (f.file, g["l"])
    where_f = "src/%s:%d" % (f.file, fc["l"])
    # key-release share
    S = None
    te = norm(g["args"][0], env) if len(g["args"]) >= 2 else Term("unk", text="?")
    td = norm(g["args"][1], env) if len(g["args"]) >= 2 else Term("unk", text="?")
    rep.instance("V3", "a:key-release-share", {"call": "differentially_private_group_by(%r, %r, _)" % (te, td)})
    okg = True
    shares = []
    for what, t in (("epsilon", te), ("delta", td)):
        want = "%s.%s" % (P, what)
        if not (t.is_prod() and t.num == 1.0 and not t.divs and not t.comps and len(t.atoms) == 2 and want in t.atoms):
            rep.violation("V3", "%s@group_by/%s" % (fq, what), "the %s given to the key release is `%r`, expected `%s * <share field of %s>`" % (what, t, want, P), where_g)
            okg = False
        else:
            s = [a for a in t.atoms if a != want][0]
            if not s.startswith(P + "."):
                rep.violation("V3", "%s@group_by/%s" % (fq, what), "the share `%s` multiplying %s is not a field of `%s`" % (s, want, P), where_g)
                okg = False
            shares.append(s)
    if okg and len(set(shares)) != 1:
        rep.violation("V3", "%s@group_by/share" % fq, "epsilon and delta of the key release use different shares: %s" % shares, where_g)
        okg = False
    if okg:
        S = shares[0]
        validated.add(id(g))
    # aggregation share
    a0 = env.resolve(fc["args"][0]) if len(fc["args"]) == 2 else None
    if a0 is None or not (a0["k"] == "path" and a0["p"] == P):
        rep.violation("V3", "%s@from_dp_parameters/params" % fq, "the aggregation parameters are not derived from `%s`: %s" % (P, show(fc)), where_f)
        return
    t = norm(fc["args"][1], env)
    rep.instance("V3", "a:aggregation-share", {"call": "from_dp_parameters(%s, %r)" % (P, t)})
    if S is None:
        return

    def is_comp(x):
        return x.is_prod() and x.num == 1.0 and not x.atoms and not x.divs and x.comps == (S,)

    def is_one(x):
        return x.is_prod() and x.num == 1.0 and not (x.atoms or x.divs or x.comps)

    key = "%s@aggregation-share" % fq
    if is_comp(t):
        ok_struct_roots.add(id(fc))
    elif t.kind == "if":
        c = t.cond
        good = c["k"] == "mcall" and c["m"] == "is_no_op" and not c["args"]
        if not good:
            rep.violation("V3", key, "the aggregation share is full (1) under a condition that is not `<group-by event>.is_no_op()`: %s" % show(c), where_f)
            return
        ev = strip_wrappers(c["recv"])
        # the tested event must hold the key-release event
        tt = SeedTaint(g, "key-release")
        tt.run_block(f.body)
        if not (ev["k"] == "path" and (ev["p"] in tt.tainted and tt.tainted[ev["p"]])):
            rep.violation("V3", key, "the full share is granted when `%s` is a no-op, but `%s` does not hold the event of the key release" % (show(ev), show(ev)), where_f)
            return
        if not (is_one(t.a) and is_comp(t.b)):
            rep.violation("V3", key, "aggregation share must be 1 when no key-release budget was spent and (1 - %s) otherwise; found then=`%r` else=`%r`" % (S, t.a, t.b), where_f)
            return
        ok_struct_roots.add(id(fc))
    else:
        rep.violation("V3", key, "the aggregation share `%r` is not (1 - %s) (nor 1 guarded by a no-op key release)" % (t, S), where_f)


def _budget_slots(t):
    """epsilon / delta expressions of a `DpAggregatesParameters::new(e, d, ..)` call or of a struct literal
    `DpAggregatesParameters { epsilon: e, delta: d, ..self }` (None for a field carried over by `..self`)."""
    if t is None:
        return None
    if is_call_to(t, "DpAggregatesParameters::new", "Self::new") and len(t["args"]) >= 2:  # `Self` = DpAggregatesParameters inside its impl
        return {"epsilon": t["args"][0], "delta": t["args"][1]}
    if t["k"] == "struct" and t["path"]["segs"][-1:] in (["DpAggregatesParameters"], ["Self"]):
        fields = {fl["name"]: fl["e"] for fl in t["fields"]}
        if t.get("rest") is not None and path_of(t["rest"]) != "self":
            return None
        out = {}
        for nm in ("epsilon", "delta"):
            if nm in fields:
                out[nm] = fields[nm]
            elif t.get("rest") is not None:
                out[nm] = None
            else:
                return None
        return out
    return None


def _v3bcd(rep, src):
    file = DP + "aggregates.rs"
    new = _one(src, name="new", self_ty="DpAggregatesParameters", file=file)
    pn = [pat_ident(p["pat"]) for p in nonself_params(new)]
    t = _tail_expr(new.body)
    ok = t is not None and t["k"] == "struct" and not t.get("rest")
    fields = {fl["name"]: fl["e"] for fl in t["fields"]} if ok else {}
    rep.instance("V3", "c:new", {"params": pn[:2], "fields": {k: show(v) for k, v in list(fields.items())[:2]}})
    for i, nm in ((0, "epsilon"), (1, "delta")):
        e = fields.get(nm)
        if not ok or e is None or path_of(e) != pn[i] or pn[i] != nm:
            rep.violation("V3", "DpAggregatesParameters::new@%s" % nm, "`new` does not store its parameter #%d in the field `%s`" % (i, nm), new.where())
    # with_* : struct update that leaves epsilon / delta alone
    for f in src.find_fns(self_ty="DpAggregatesParameters", file=file) + src.find_fns(self_ty="DpParameters", file=DP + "dp_parameters.rs"):
        if not f.name.startswith("with_"):
            continue
        t = _tail_expr(f.body)
        okw = t is not None and t["k"] == "struct" and path_of(t.get("rest")) == "self" and not ({fl["name"] for fl in t["fields"]} & {"epsilon", "delta"})
        rep.instance("V3", "c:%s::%s" % (f.self_ty, f.name), {"fn": f.qual, "sets": [fl["name"] for fl in t["fields"]] if t is not None and t["k"] == "struct" else None}, nontrivial=False)
        if not okw:
            rep.violation("V3", "%s@budget" % f.qual, "%s is used as a budget-preserving setter but does not rebuild the struct from `..self` leaving epsilon/delta alone" % f.qual, f.where())
    # from_dp_parameters
    f = _one(src, name="from_dp_parameters", self_ty="DpAggregatesParameters", file=file)
    env = FnEnv(f)
    p = [pat_ident(x["pat"]) for x in nonself_params(f)]
    t = _tail_expr(f.body)
    if t is None or not is_call_to(t, "DpAggregatesParameters::new", "Self::new") or len(p) != 2:
        raise Anchor("from_dp_parameters: expected `DpAggregatesParameters::new(..)` as the tail expression")
    for i, nm in ((0, "epsilon"), (1, "delta")):
        tt = norm(t["args"][i], env)
        rep.instance("V3", "b:from_dp_parameters/%s" % nm, {"slot": nm, "term": repr(tt)})
        want = tuple(sorted(("%s.%s" % (p[0], nm), p[1])))
        if not (tt.is_prod() and tt.num == 1.0 and tt.atoms == want and not tt.divs and not tt.comps):
            rep.violation("V3", "DpAggregatesParameters::from_dp_parameters@%s" % nm, "%s of the aggregation parameters is `%r`, expected `%s.%s * %s`" % (nm, tt, p[0], nm, p[1]), "src/%s:%d" % (f.file, t["l"]))
    # split
    f = _one(src, name="split", self_ty="DpAggregatesParameters", file=file)
    env = FnEnv(f)
    p = [pat_ident(x["pat"]) for x in nonself_params(f)]
    t = _tail_expr(f.body)
    slots = _budget_slots(t)
    if slots is None or len(p) != 1:
        raise Anchor("split: expected `DpAggregatesParameters::new(..)` or a struct literal as the tail expression and one parameter")
    for i, nm in ((0, "epsilon"), (1, "delta")):
        if slots[nm] is None:
            rep.instance("V3", "c:split/%s" % nm, {"slot": nm, "term": "self.%s (carried over by ..self)" % nm})
            rep.violation("V3", "DpAggregatesParameters::split@%s" % nm, "%s is carried over unchanged by `..self`: it is not divided by the number of parts" % nm, "src/%s:%d" % (f.file, t["l"]))
            continue
        tt = norm(slots[nm], env)
        rep.instance("V3", "c:split/%s" % nm, {"slot": nm, "term": repr(tt)})
        if not (tt.is_prod() and tt.num <= 1.0 and tt.atoms == ("self.%s" % nm,) and tt.divs == ("max1:%s" % p[0],) and not tt.comps):
            rep.violation("V3", "DpAggregatesParameters::split@%s" % nm, "%s after split is `%r`, expected `self.%s / (max(%s, 1) as f64)`" % (nm, tt, nm, p[0]), "src/%s:%d" % (f.file, t["l"]))


def _v3e(rep, src, validated):
    f = _one(src, name="differentially_private_aggregates", self_ty="Reduce", file=DP + "aggregates.rs")
    env = FnEnv(f)
    fq = f.qual
    sp = [n for n in walk(f.body) if n["k"] == "mcall" and n["m"] == "split"]
    if len(sp) != 1:
        raise Anchor("Reduce::differentially_private_aggregates: expected one `.split(..)` call, found %d" % len(sp))
    sp = sp[0]
    where = "src/%s:%d" % (f.file, sp["l"])
    recv = env.resolve(sp["recv"])
    pstruct = [n for n, t in env.params if struct_ty(t) == "DpAggregatesParameters"]
    arg = strip_wrappers(sp["args"][0]) if len(sp["args"]) == 1 else None
    coll = None
    if arg is not None and arg["k"] == "mcall" and arg["m"] == "len" and not arg["args"]:
        r = strip_wrappers(arg["recv"])
        if r["k"] == "path" and len(r["segs"]) == 1:
            coll = r["p"]
    holder = [nm for nm, init in env.lets.items() if contains(init, sp) and env.init_of(nm) is not None]
    rep.instance("V3", "d:split-count", {"split": show(sp), "collection": coll, "split_parameters": holder})
    if not (recv["k"] == "path" and pstruct and recv["p"] == pstruct[0]):
        rep.violation("V3", "%s@split/receiver" % fq, "split is not applied to the function's own parameters: %s" % show(sp), where)
    if coll is None:
        rep.violation("V3", "%s@split/count" % fq, "split(n): n is `%s`, expected the length of the collection of sub-queries" % show(sp["args"]), where)
        return
    # the mechanisms: differentially_private_aggregates called once per element of `coll` with the split parameters
    used = False
    for n in walk(f.body):
        if n["k"] == "mcall" and n["m"] == "differentially_private_aggregates" and n["args"]:
            last = strip_wrappers(n["args"][-1])
            cl = [(c, o) for c, o in _closures(f.body) if contains(c["body"], n)]
            over = None
            for c, o in cl:
                if o["k"] == "mcall":
                    root, ms = chain_root(o)
                    root = strip_wrappers(root)
                    if root["k"] == "path" and set(ms) <= {"iter", "into_iter", "map"}:
                        over = root["p"]
            okp = last["k"] == "path" and last["p"] in holder
            rep.instance("V3", "d:split-use", {"call": show(n, 100), "parameters": show(last), "iterates": over})
            if not okp:
                rep.violation("V3", "%s@split/use" % fq, "a DP aggregation is run with `%s`, not with the split parameters" % show(last), "src/%s:%d" % (f.file, n["l"]))
            elif over != coll:
                rep.violation("V3", "%s@split/count" % fq, "the budget is split by `%s.len()` but the aggregations run once per element of `%s`" % (coll, over), "src/%s:%d" % (f.file, n["l"]))
            else:
                validated.add(id(n))
            used = True
    if not used:
        rep.violation("V3", "%s@split/use" % fq, "the split parameters are not used by any DP aggregation", where)


def _v3f(rep, src, validated, ok_struct_roots):
    fns = [f for f in src.fns if not f.test and f.body is not None and f.file.startswith(DP)]
    budget = {}
    for f in fns:
        sl = budget_slots(f)
        if not sl:
            continue
        ret = (f.node["sig"].get("ret") or "").replace(" ", "")
        is_event_ctor = (f.self_ty == "DpEvent") and ret in ("Self", "DpEvent")
        is_param_fn = (f.self_ty or "") in PARAM_STRUCTS and f.name != "reduce"
        budget.setdefault(f.name, []).append((f, sl, is_event_ctor, is_param_fn))
    n_sites = 0
    for f in fns:
        if not budget_slots(f):
            continue
        if (f.self_ty or "") in PARAM_STRUCTS and f.name != "reduce":
            continue  # constructors / setters: clauses (b), (c)
        env = FnEnv(f)
        atoms = caller_atoms(f)
        fq = f.qual
        for n in walk(f.body):
            nm = callee_name(n)
            if nm is None or nm not in budget or n["k"] not in ("call", "mcall"):
                continue
            cands = []
            for g, sl, is_ev, is_pf in budget[nm]:
                if is_ev or is_pf:
                    continue
                np_ = len(nonself_params(g))
                has_self = any(p.get("self") for p in g.params)
                if n["k"] == "mcall" and has_self and len(n["args"]) == np_:
                    cands.append((g, sl, 0))
                elif n["k"] == "call" and len(n["args"]) == np_ + (1 if has_self else 0):
                    cands.append((g, sl, 1 if has_self else 0))
            if not cands:
                continue
            layouts = {tuple(s for s in sl if s[0] != "self") for _, sl, _ in cands}
            if len(layouts) != 1:
                rep.undecidable("V3", "%s@%s/ambiguous" % (fq, nm), "several budget-taking functions named `%s` with different parameter layouts match this call" % nm, "src/%s:%d" % (f.file, n["l"]))
                continue
            g, sl, off = cands[0]
            if id(n) in validated:
                continue
            n_sites += 1
            key = "%s->%s" % (fq, g.qual)
            terms = {}
            for idx, kind in sl:
                if idx == "self":
                    a = n["recv"] if n["k"] == "mcall" else n["args"][0]
                else:
                    a = n["args"][idx + off]
                where = "src/%s:%d" % (f.file, n["l"])
                if kind in ("eps", "delta"):
                    t = norm(a, env)
                    terms[kind] = repr(t)
                    if not t.is_prod() or len(t.atoms) != 1 or t.comps:
                        rep.undecidable("V3", key + "/" + kind, "cannot relate the %s handed to %s, `%r`, to the budget of %s" % (kind, g.qual, t, fq), where)
                    elif t.atoms[0] not in atoms[kind]:
                        rep.violation("V3", key + "/" + kind, "%s hands `%r` to the %s slot of %s: not its own %s (%s)" % (fq, t, kind, g.qual, kind, ", ".join(sorted(atoms[kind])) or "none"), where)
                    elif t.num > 1.0:
                        rep.violation("V3", key + "/" + kind, "%s enlarges the budget handed to %s: %s = `%r`" % (fq, g.qual, kind, t), where)
                else:
                    r = env.resolve(a)
                    root, ms = chain_root(r)
                    root = env.resolve(root)
                    terms["struct"] = show(r, 80)
                    bad = [m for m in ms if not (m in ("clone", "split") or m.startswith("with_"))]
                    if bad:
                        rep.undecidable("V3", key + "/parameters", "the parameters handed to %s go through %s" % (g.qual, bad), where)
                    elif root["k"] == "path" and root["p"] in atoms["struct"]:
                        pass
                    elif root["k"] == "call" and id(root) in ok_struct_roots:
                        pass
                    else:
                        rep.violation("V3", key + "/parameters", "the parameters handed to %s, `%s`, are not derived from the caller's own parameters" % (g.qual, show(r, 100)), where)
            rep.instance("V3", "e:%s#%d" % (key, n_sites), {"caller": fq, "callee": g.qual, "passes": terms})


# =========================================================================== run


def _lit(e):
    if e["k"] == "lit" and e["t"] in ("int", "float"):
        try:
            return float(e["v"].replace("_", ""))
        except ValueError:
            return None
    if e["k"] == "path" and e["p"] in ("f64::MAX", "std::f64::MAX"):
        return float("inf")
    return None


def v6(rep, src):
    """The sampler: the noise added to a column is sigma times a standard normal draw (Box-Muller), and relations add it with the sigma they are given."""
    from .util_terms import builder_table, fmt
    from .c01 import run_anchor

    rep.rule(
        "V6",
        "the sampler (expr/rewriting.rs): Expr::gaussian_noise() is the Box-Muller term sqrt(-2 * ln(random())) * cos(2*PI * random()) over two separate random() draws - natural logarithm, "
        "factor -2, cosine of 2*PI times the second draw - and Expr::add_gaussian_noise(self, sigma) is self + sigma * gaussian_noise()",
        floor=2,
        necessary="the event records sigma / C; the draw must have standard deviation sigma: with log10 instead of ln the term has standard deviation 0.66, so the noise applied is 0.66 * sigma "
        "while the recorded multiplier stays the same",
    )
    tb = builder_table(src)
    key = "Expr::gaussian_noise"
    fn, it, v = run_anchor(src, tb, "gaussian_noise", "expr/rewriting.rs", "Expr")

    def is_x(t, name, n=None):
        return isinstance(t, tuple) and len(t) == 3 and t[0] == "x" and t[1] == name and (n is None or len(t[2]) == n)

    def val_of(t):
        if is_x(t, "val", 1):
            return t[2][0]
        return t

    def is_random(t):
        return isinstance(t, tuple) and t[0] == "app" and t[1] == "Expr::random"

    def two_pi(t):
        t = val_of(t)
        if t == ("app", "*", (("num", 2), ("p", "PI"))) or t == ("app", "*", (("p", "PI"), ("num", 2))):
            return True
        if isinstance(t, tuple) and t[0] == "app" and t[1] == "*" and len(t[2]) == 2:
            a, b = t[2]
            nums = [x for x in (a, b) if x[0] == "num"]
            pis = [x for x in (a, b) if x[0] == "p" and x[1].split("::")[-1] in ("PI",)]
            return len(nums) == 1 and len(pis) == 1 and float(nums[0][1]) == 2.0
        if isinstance(t, tuple) and t[0] == "p" and t[1].split("::")[-1] == "TAU":
            return True
        return False

    ok, why = False, fmt(v)[:200]
    if is_x(v, "Multiply", 2):
        for a, b in ((v[2][0], v[2][1]), (v[2][1], v[2][0])):
            if is_x(a, "Sqrt", 1) and is_x(b, "Cos", 1) and is_x(a[2][0], "Multiply", 2) and is_x(b[2][0], "Multiply", 2):
                m1, m2 = a[2][0][2], b[2][0][2]
                for c, l in ((m1[0], m1[1]), (m1[1], m1[0])):
                    cv = val_of(c)
                    if cv[0] == "num" and float(cv[1]) == -2.0 and is_x(l, "Ln", 1) and is_random(l[2][0]):
                        for p2, r2 in ((m2[0], m2[1]), (m2[1], m2[0])):
                            if two_pi(p2) and is_random(r2):
                                ok = True
    rep.instance("V6", key, {"term": fmt(v)[:300], "is_box_muller": ok})
    if not ok:
        rep.violation("V6", key, "Expr::gaussian_noise is not sqrt(-2 * ln(random())) * cos(2*PI * random()): %s" % why, fn.where())
    # two separate draws: the function calls Expr::random twice (the two uniform variables of Box-Muller must be independent)
    draws = [c for c in find(fn.body, "call") if is_call_to(c, "Expr::random")]
    if len(draws) != 2:
        rep.violation("V6", key + "@draws", "Box-Muller needs two independent uniform draws, found %d Expr::random call(s)" % len(draws), fn.where())
    key2 = "Expr::add_gaussian_noise"
    fn2, it2, v2 = run_anchor(src, tb, "add_gaussian_noise", "expr/rewriting.rs", "Expr")
    ok2 = False
    if is_x(v2, "Plus", 2):
        for a, b in ((v2[2][0], v2[2][1]), (v2[2][1], v2[2][0])):
            if a == ("p", "self") and is_x(b, "Multiply", 2):
                for c, g in ((b[2][0], b[2][1]), (b[2][1], b[2][0])):
                    if val_of(c) == ("p", "sigma") and g == ("app", "Expr::gaussian_noise", ()):
                        ok2 = True
    rep.instance("V6", key2, {"term": fmt(v2)[:200], "is_self_plus_sigma_times_draw": ok2})
    if not ok2:
        rep.violation("V6", key2, "Expr::add_gaussian_noise(self, sigma) is not self + sigma * gaussian_noise(): %s" % fmt(v2)[:200], fn2.where())


def v4(rep, src):
    """Closed terms of the Gaussian calibration in dp_event.rs (classical analytic bound, Dwork & Roth Thm 3.22)."""
    rep.rule(
        "V4",
        "gaussian_noise_multiplier(eps, delta) = clamp(sqrt(2 * ln(1.25 / delta)) / eps, 0, f64::MAX) and gaussian_noise(eps, delta, s) = clamp(gaussian_noise_multiplier(eps, delta) * s, 0, f64::MAX) "
        "(term shapes; the clamp may only saturate, never replace a non-finite sigma by a smaller value)",
        floor=2,
        necessary="a smaller sigma than the classical calibration (other constants, a non-finite product mapped to 0) applies less noise than the (epsilon, delta) handed to the mechanism requires",
    )
    DPE = "differential_privacy/dp_event.rs"

    def tail(f):
        """tail expression with the function's plain `let x = e;` bindings substituted (so that naming an intermediate value is not a violation)"""
        import copy

        st = f.body["stmts"]
        if not st or st[-1]["k"] != "expr" or st[-1].get("semi"):
            return None
        lets = {}
        for x in st[:-1]:
            if x["k"] == "let" and x["pat"]["k"] == "ident" and x.get("init") is not None and not x["pat"].get("mut"):
                lets[x["pat"]["name"]] = x["init"]
            else:
                return None

        def subst(e, depth=0):
            if isinstance(e, list):
                return [subst(y, depth) for y in e]
            if not isinstance(e, dict):
                return e
            if e.get("k") == "path" and len(e.get("segs", [])) == 1 and e["segs"][0] in lets and depth < 6:
                return subst(copy.deepcopy(lets[e["segs"][0]]), depth + 1)
            return {k: subst(v, depth) for k, v in e.items()}

        return subst(st[-1]["e"])

    def clamp_of(e):
        if e is not None and e["k"] == "mcall" and e["m"] == "clamp" and len(e["args"]) == 2 and _lit(e["args"][0]) == 0.0 and _lit(e["args"][1]) == float("inf"):
            return e["recv"]
        return None

    def binop(e, op):
        return (e["lhs"], e["rhs"]) if e is not None and e["k"] == "binary" and e["op"] == op else None

    # multiplier
    f = _one(src, name="gaussian_noise_multiplier", file=DPE)
    ps = [pat_ident(p["pat"]) for p in nonself_params(f)]
    key = "dp_event::gaussian_noise_multiplier"
    ok = False
    inner = clamp_of(tail(f))
    d = binop(inner, "/") if inner is not None else None
    if d and len(ps) == 2 and path_of(d[1]) == ps[0]:
        sq = d[0]
        if sq["k"] == "mcall" and sq["m"] == "sqrt":
            m2 = binop(sq["recv"], "*")
            if m2:
                two, ln = (m2[0], m2[1]) if _lit(m2[0]) is not None else (m2[1], m2[0])
                if _lit(two) == 2.0 and ln["k"] == "mcall" and ln["m"] == "ln":
                    q = binop(ln["recv"], "/")
                    ok = bool(q and _lit(q[0]) == 1.25 and path_of(q[1]) == ps[1])
    rep.instance("V4", key, {"term": show(tail(f), 160) if tail(f) is not None else show(f.body, 160), "matches": ok})
    if not ok:
        rep.violation("V4", key, "the noise multiplier is not clamp(sqrt(2 * ln(1.25 / delta)) / epsilon, 0, f64::MAX): %s" % show(f.body, 200), f.where())
    # sigma
    g = _one(src, name="gaussian_noise", file=DPE)
    ps = [pat_ident(p["pat"]) for p in nonself_params(g)]
    key = "dp_event::gaussian_noise"
    ok = False
    inner = clamp_of(tail(g))
    m = binop(inner, "*") if inner is not None else None
    if m and len(ps) == 3:
        a, b = m
        call, sens = (a, b) if a["k"] == "call" else (b, a)
        ok = is_call_to(call, "gaussian_noise_multiplier") and [path_of(x) for x in call["args"]] == ps[:2] and path_of(sens) == ps[2]
    rep.instance("V4", key, {"term": show(tail(g), 160) if tail(g) is not None else show(g.body, 160), "matches": ok})
    if not ok:
        rep.violation("V4", key, "sigma is not clamp(gaussian_noise_multiplier(epsilon, delta) * sensitivity, 0, f64::MAX): %s" % show(g.body, 200), g.where())


def v5(rep, src):
    """The event algebra keeps every entry: compose only drops no-ops, is_no_op of a composition looks at all its entries (or compose is the only constructor)."""
    rep.rule(
        "V5",
        "event algebra (dp_event.rs): (a) DpEvent::compose returns one operand alone only when the OTHER one is_no_op(), otherwise Composed with the entries of both; "
        "(b) is_no_op is true for NoOp, for a zero multiplier / zero (epsilon, delta), and for a Composed event only when ALL its entries are no-ops — or, if it inspects fewer entries, "
        "every `DpEvent::Composed {..}` is built by compose (which never stores a no-op); (c) FromIterator / From<Vec> go through compose or respect (b)",
        floor=5,
        necessary="an aggregation event [NoOp, Gaussian, ..] that reports itself as a no-op is dropped by the next compose: the query keeps its mechanisms, the returned event loses them",
    )
    F = DP + "dp_event.rs"
    comp = _one(src, name="compose", self_ty="DpEvent", file=F)
    isn = _one(src, name="is_no_op", self_ty="DpEvent", file=F)
    # (a) compose
    ps = [pat_ident(p["pat"]) for p in nonself_params(comp)]
    other = ps[0] if ps else "other"
    exits = []
    from .core import walk_guards as _wg
    from .util_terms import desugar_early_returns as _der

    body = _der(comp.body)

    def leaves(e, guards):
        if e is None:
            return
        if e["k"] == "block":
            st = e["stmts"]
            if st and st[-1]["k"] == "expr" and not st[-1].get("semi"):
                leaves(st[-1]["e"], guards)
            return
        if e["k"] == "if" and e["cond"]["k"] != "letcond":
            leaves(e["then"], guards + [(e["cond"], True)])
            if e.get("else") is not None:
                leaves(e["else"], guards + [(e["cond"], False)])
            return
        exits.append((e, guards))

    leaves(body, [])
    ok_a = True
    for e, guards in exits:
        who = path_of(strip_wrappers(e))
        if who in ("self", other):
            dropped = other if who == "self" else "self"
            need = "%s.is_no_op()" % dropped
            if not any(pol and show(c, 0).replace(" ", "") == need for c, pol in guards):
                ok_a = False
                rep.violation("V5", "DpEvent::compose@%s" % who, "compose returns `%s` alone without `%s` holding: the entries of the other operand are lost" % (who, need), comp.where())
        elif not (e["k"] == "struct" and e["path"]["segs"][-1:] == ["Composed"]):
            rep.undecidable("V5", "DpEvent::compose@exit", "exit of compose not understood: %s" % show(e, 80), comp.where())
            ok_a = False
    rep.instance("V5", "DpEvent::compose", {"exits": [show(e, 50) for e, _ in exits], "drops_only_no_ops": ok_a})
    # (b) is_no_op arm table
    m = _tail_expr(isn.body)
    robust = None
    if m is None or m["k"] != "match" or path_of(m["e"]) != "self":
        rep.undecidable("V5", "DpEvent::is_no_op", "is_no_op is not a `match self`", isn.where())
    else:
        for a in m["arms"]:
            pt = show(a["pat"], 0)
            b = a["body"]
            while b["k"] == "block" and len(b["stmts"]) == 1 and b["stmts"][0]["k"] == "expr":
                b = b["stmts"][0]["e"]
            txt = show(b, 0).replace(" ", "")
            if "Composed" in pt:
                q = [x for x in find(b, "mcall") if x["m"] in ("all", "any", "first", "last", "map_or", "is_some_and", "find", "position", "nth", "is_empty", "len")]
                robust = b["k"] == "mcall" and b["m"] == "all" and len(b["args"]) == 1 and b["args"][0]["k"] == "closure" and show(b["args"][0]["body"], 0).replace(" ", "").endswith(".is_no_op()") and {x["m"] for x in find(b["recv"], "mcall")} <= {"iter", "into_iter"}
                rep.instance("V5", "DpEvent::is_no_op@Composed", {"body": show(b, 80), "all_entries": bool(robust)})
                if not robust and "is_no_op" not in txt:
                    rep.violation("V5", "DpEvent::is_no_op@Composed", "a composed event is declared a no-op without looking at its entries: %s" % show(b, 80), isn.where())
            elif "NoOp" in pt:
                rep.instance("V5", "DpEvent::is_no_op@NoOp", {"body": txt})
                if txt != "true":
                    rep.violation("V5", "DpEvent::is_no_op@NoOp", "NoOp is not a no-op: %s" % txt, isn.where())
            elif "Gaussian" in pt or "Laplace" in pt or "EpsilonDelta" in pt:
                zero_tests = [c for c in find(b, "binary") if c["op"] == "==" and any(show(sd, 0).replace(" ", "").lstrip("&") in ("0.0", "0.", "0", "0f64") for sd in (c["lhs"], c["rhs"]))]
                binds = [x["name"] for x in walk(a["pat"]) if x["k"] == "ident"]
                ors = [c for c in find(b, "binary") if c["op"] == "||"]
                rep.instance("V5", "DpEvent::is_no_op@" + pt.split("{")[0].replace(" ", "")[:40], {"body": txt, "zero_tests": len(zero_tests), "bound": binds})
                if len(zero_tests) < len(set(binds)) or ors or txt == "true":
                    rep.violation("V5", "DpEvent::is_no_op@" + pt.split("{")[0].replace(" ", "")[:40], "a mechanism entry is declared a no-op without all its parameters being zero: %s" % show(b, 80), isn.where())
    # (c) constructors of Composed
    sites = []
    for f in src.fns:
        if f.test or not f.body or not f.file.startswith(DP.rstrip("/")) and not f.file.startswith("rewriting/"):
            continue
        for x in find(f.body, "struct"):
            if x["path"]["segs"][-1:] == ["Composed"] and any(fl["name"] == "events" and "e" in fl for fl in x.get("fields", [])):  # expressions only (patterns carry `pat`)
                sites.append((f, x))
    outside = [(f, x) for f, x in sites if not (f.name == "compose" and (f.self_ty or "") == "DpEvent")]
    rep.instance("V5", "DpEvent::Composed@constructors", {"sites": sorted({f.qual for f, _ in sites})})
    if robust is False:
        if outside:
            f, x = outside[0]
            rep.violation("V5", "DpEvent::is_no_op@Composed", "is_no_op does not inspect all the entries of a composed event while %s builds `DpEvent::Composed` directly (entries may be no-ops): [NoOp, Gaussian] reports itself as a no-op and is dropped by compose" % f.qual, "src/%s:%d" % (f.file, x["l"]))
        elif not ok_a:
            rep.violation("V5", "DpEvent::is_no_op@Composed", "is_no_op does not inspect all the entries of a composed event and compose does not guarantee they are not no-ops", isn.where())


def run(rep):
    rep.explanation = (
        "Static flow / term rules for 'privacy loss is never under-reported'. V1 (type-checked MIR of every body of crate qrlew that can return an event): "
        "no event-carrying value is dropped before the return place - in particular Rewriter::{map,reduce,join,set} compose the events of their inputs with the event of the "
        "DP aggregation, Reduce::differentially_private composes key-release and aggregation events, the fold over DISTINCT sub-queries composes both sides. "
        "V2 (syn AST): at the two mechanism sites (gaussian_mechanisms, tau_thresholding_values) the (epsilon, delta) that calibrate sigma / tau are <= those of the event built there, one event per noised column. "
        "V3 (syn AST): the shares handed down by Reduce::differentially_private are P*s and P*(1-s) (1 when no key-release budget was spent), from_dp_parameters multiplies by the share, "
        "split divides by max(n,1) with n the number of sub-aggregations, and every other hand-off passes the budget unchanged or smaller. "
        "V4 (syn AST): sigma and the noise multiplier have the classical closed form sqrt(2 ln(1.25/delta))/epsilon * sensitivity, clamped only upwards-saturating. "
        "NOT decided: that the classical calibration is tight (numeric), the tau formula (C04/K6), over-reporting, degenerate parameters (epsilon = inf is recorded as NoOp, shares outside [0,1]), "
        "and flows hidden behind `dyn` calls."
    )
    src = Src(facts.src_facts())
    mir = Mir(facts.mir_facts())
    v1(rep, src, mir)
    v2(rep, src)
    v3(rep, src)
    v4(rep, src)
    v5(rep, src)
    v6(rep, src)
    rep.assume("MIR facts are those of `cargo check --lib` with default features (cfg(test) code is not analysed)")
    rep.assume("a call whose arguments hold no event and whose result type can hold one produces a fresh event (origin); calls with event arguments propagate them")
    rep.assume("the share field tau_thresholding_share lies in [0,1] and counts are >= 1 where stated (guard or iteration checked)")
