"""A small symbolic evaluator over function-body ASTs (syn facts), used by the arm-table rules of C10 and C11.

It turns the value computed by a piece of straight-line / branching Rust code into a *term* in which
local names have disappeared: a rule that compares terms is insensitive to renamed or re-ordered locals,
shadowing, and temporaries.  Nothing is executed: terms are uninterpreted.

Terms are tuples:
  ("var", name)                 free name (parameter, `self`, constant)
  ("path", "A::B")              multi-segment path used as a value (unit variant, const, fn item)
  ("lit", v)
  ("m", method, recv, (args))   method call
  ("call", "path::f", (args))   call of a path        ("callx", fterm, (args)) otherwise
  ("tuple", (..)) ("array", (..)) ("index", e, i) ("field", e, name)
  ("bin", op, l, r) ("not", e) ("neg", e) ("try", e) ("cast", e, ty)
  ("struct", "Path", ((name, term), ...))
  ("closure", id)               id indexes Ev.closures = (node, captured env)
  ("macro", name, (args) | None)
  ("phi", (t1, t2, ..))         value is one of (control-flow join; conditions are not tracked)
  ("proj", "Ctor", i, t)        i-th field of `t` when it matches tuple-struct pattern Ctor(..)
  ("sproj", "Ctor", field, t)   named field of `t` when it matches struct pattern Ctor { .. }
  ("tproj", i, t)               i-th component of a tuple-valued term that is not a literal tuple
  ("elem", i, t)                i-th element of a slice/array-valued term (slice pattern)
  ("unk", text)                 anything the evaluator has no form for
References and dereferences (`&e`, `&mut e`, `*e`) are dropped.
"""
from .core import show


def phi(ts):
    out = []
    for t in ts:
        if t[0] == "phi":
            for x in t[1]:
                if x not in out:
                    out.append(x)
        elif t not in out:
            out.append(t)
    if len(out) == 1:
        return out[0]
    return ("phi", tuple(out))


def desugar_returns(block):
    """`if c { ..; return a; } rest` == `if c { ..; a } else { rest }` on the top-level block of a function / closure body."""
    from .util_terms import desugar_early_returns

    return desugar_early_returns(block)


class Ev:
    def __init__(self, helpers=None):
        self.closures = []
        self.returns = []
        # private free functions of the analysed module ({name: fn node}): a call `helper(a, b)` is evaluated as the helper's body
        # with the parameters bound to the argument terms (an extracted helper reads like the code it was extracted from)
        self.helpers = helpers or {}
        self._depth = 0

    # ------------------------------------------------------------------ patterns
    def bind(self, pat, t, env, declared=None):
        k = pat["k"]
        if k == "ident":
            env[pat["name"]] = t
            if declared is not None:
                declared.add(pat["name"])
            if pat.get("sub"):
                self.bind(pat["sub"], t, env, declared)
        elif k in ("wild", "rest", "path", "lit", "range"):
            pass
        elif k == "ref":
            self.bind(pat["pat"], t, env, declared)
        elif k == "typed":
            self.bind(pat["pat"], t, env, declared)
        elif k == "tuple":
            for i, p in enumerate(pat["elems"]):
                if t[0] == "tuple" and len(t[1]) == len(pat["elems"]):
                    self.bind(p, t[1][i], env, declared)
                else:
                    self.bind(p, ("tproj", i, t), env, declared)
        elif k == "tuplestruct":
            ctor = pat["path"]["p"]
            for i, p in enumerate(pat["elems"]):
                self.bind(p, ("proj", ctor, i, t), env, declared)
        elif k == "struct":
            ctor = pat["path"]["p"]
            for f in pat.get("fields", []):
                self.bind(f["pat"], ("sproj", ctor, f["name"], t), env, declared)
        elif k == "slice":
            for i, p in enumerate(pat["elems"]):
                if p["k"] == "rest":
                    continue
                if t[0] == "array" and len(t[1]) == len(pat["elems"]):
                    self.bind(p, t[1][i], env, declared)
                else:
                    self.bind(p, ("elem", i, t), env, declared)
        elif k == "or":
            # all cases bind the same names; the rule that needs per-case precision splits the pattern itself
            envs = []
            for c in pat["cases"]:
                e2 = {}
                self.bind(c, t, e2, declared)
                envs.append(e2)
            for name in envs[0] if envs else ():
                env[name] = phi([e.get(name, ("unk", name)) for e in envs])
        else:
            for name in _names(pat):
                env[name] = ("unk", show(pat, 60))

    # ------------------------------------------------------------------ expressions
    def eval(self, n, env):
        if n is None:
            return ("lit", None)
        k = n["k"]
        if k == "path":
            segs = n["segs"]
            if len(segs) == 1:
                return env.get(segs[0], ("var", segs[0]))
            return ("path", n["p"])
        if k == "lit":
            return ("lit", n["v"])
        if k == "mcall":
            if n["m"] == "unwrap_or_else" and len(n["args"]) == 1 and n["args"][0]["k"] == "closure":
                # x.unwrap_or_else(|e| d)  ==  x.unwrap_or(d) for a closure that is a plain expression of its environment
                cl = n["args"][0]
                e2 = dict(env)
                for p_ in cl["params"]:
                    self.bind(p_, ("unk", "error value"), e2)
                return ("m", "unwrap_or", self.eval(n["recv"], env), (self.eval(cl["body"], e2),))
            if n["m"] in ("is_ok_and", "is_some_and", "is_none_or") and len(n["args"]) == 1:
                # Result/Option::is_ok_and(f) == map_or(false, f); Option::is_none_or(f) == map_or(true, f)
                dflt = ("lit", n["m"] == "is_none_or")
                return ("m", "map_or", self.eval(n["recv"], env), (dflt, self.eval(n["args"][0], env)))
            return ("m", n["m"], self.eval(n["recv"], env), tuple(self.eval(a, env) for a in n["args"]))
        if k == "call":
            args = tuple(self.eval(a, env) for a in n["args"])
            f = n["f"]
            if f["k"] == "path" and len(f["segs"]) == 1 and f["segs"][0] in self.helpers and f["segs"][0] not in env and self._depth < 3:
                h = self.helpers[f["segs"][0]]
                ps = [p_ for p_ in (h.get("params") or (h.get("sig") or {}).get("params") or []) if not p_.get("self")]
                if len(ps) == len(args) and h.get("body") is not None:
                    e2 = {}
                    for p_, a_ in zip(ps, args):
                        self.bind(p_["pat"], a_, e2)
                    self._depth += 1
                    try:
                        return self.block(h["body"], e2)
                    finally:
                        self._depth -= 1
            if f["k"] == "path" and not (len(f["segs"]) == 1 and f["segs"][0] in env):
                return ("call", f["p"], args)
            return ("callx", self.eval(f, env), args)
        if k == "ref":
            return self.eval(n["e"], env)
        if k == "unary":
            e = self.eval(n["e"], env)
            op = n["op"].strip()
            if op == "*":
                return e
            return ("not", e) if op == "!" else ("neg", e)
        if k == "try":
            return ("try", self.eval(n["e"], env))
        if k == "cast":
            return ("cast", self.eval(n["e"], env), n["ty"])
        if k == "tuple":
            return ("tuple", tuple(self.eval(a, env) for a in n["elems"]))
        if k == "array":
            return ("array", tuple(self.eval(a, env) for a in n["elems"]))
        if k == "index":
            return ("index", self.eval(n["e"], env), self.eval(n["i"], env))
        if k == "field":
            return ("field", self.eval(n["e"], env), n["name"])
        if k == "binary":
            return ("bin", n["op"].strip(), self.eval(n["lhs"], env), self.eval(n["rhs"], env))
        if k == "struct":
            return ("struct", n["path"]["p"], tuple((f["name"], self.eval(f["e"], env)) for f in n.get("fields", [])))
        if k == "closure":
            self.closures.append((n, dict(env)))
            return ("closure", len(self.closures) - 1)
        if k == "macro":
            if "args" in n:
                return ("macro", n["name"], tuple(self.eval(a, env) for a in n["args"]))
            return ("macro", n["name"], None)
        if k == "block":
            return self.block(n, env)
        if k == "if":
            return self._if(n, env)
        if k == "match":
            return self._match(n, env)
        if k == "return":
            t = self.eval(n.get("e"), env)
            self.returns.append(t)
            return ("never",)
        if k == "assign":
            self._assign(n, env)
            return ("tuple", ())
        if k == "letcond":
            # a bare `let` condition outside `if`: evaluate the scrutinee only
            return ("unk", show(n, 60))
        return ("unk", show(n, 60))

    def apply(self, clo, args):
        """Value of calling closure term `clo` on argument terms."""
        node, env = self.closures[clo[1]]
        env = dict(env)
        for p, a in zip(node["params"], args):
            self.bind(p, a, env)
        return self.eval(node["body"], env)

    # ------------------------------------------------------------------ statements
    def _assign(self, n, env):
        lhs = n["lhs"]
        if lhs["k"] == "path" and len(lhs["segs"]) == 1:
            name = lhs["segs"][0]
            env[name] = self.eval(n["rhs"], env)
            env.setdefault("%assigned", set()).add(name)
        else:
            base = lhs
            while base["k"] in ("field", "index", "unary", "ref"):
                base = base["e"]
            if base["k"] == "path" and len(base["segs"]) == 1:
                env[base["segs"][0]] = ("unk", "assigned through " + show(lhs, 40))
                env.setdefault("%assigned", set()).add(base["segs"][0])

    def block(self, b, env):
        """Evaluate a block in a child scope; assignments to outer names are propagated to `env`."""
        inner = dict(env)
        inner["%assigned"] = set()
        declared = set()
        val = ("tuple", ())
        stmts = b["stmts"]
        for i, s in enumerate(stmts):
            val = ("tuple", ())
            if s["k"] == "let":
                t = self.eval(s.get("init"), inner) if s.get("init") is not None else ("unk", "uninit")
                self.bind(s["pat"], t, inner, declared)
            elif s["k"] == "expr":
                v = self.eval(s["e"], inner)
                if not s.get("semi") and i == len(stmts) - 1:
                    val = v
            # items / macros in statement position carry no value
        for name in inner["%assigned"]:
            if name not in declared:
                env[name] = inner[name]
                env.setdefault("%assigned", set()).add(name)
        return val

    def _branch(self, body, env, binder=None):
        e2 = dict(env)
        e2["%assigned"] = set()
        if binder:
            binder(e2)
        if body["k"] == "block":
            v = self.block(body, e2)
        else:
            v = self.eval(body, e2)
        return v, e2

    def _join(self, env, branches):
        """Merge branch environments into env: a name assigned in some branch becomes the phi of its values."""
        names = set()
        for _, e2 in branches:
            names |= e2["%assigned"]
        for name in names:
            env[name] = phi([e2.get(name, env.get(name, ("var", name))) for _, e2 in branches])
            env.setdefault("%assigned", set()).add(name)

    def _if(self, n, env):
        cond = n["cond"]
        binder = None
        if cond["k"] == "letcond":
            scrut = self.eval(cond["e"], env)
            binder = lambda e2, p=cond["pat"], s=scrut: self.bind(p, s, e2)
        else:
            self.eval(cond, env)
        bt = self._branch(n["then"], env, binder)
        if n.get("else"):
            be = self._branch(n["else"], env)
        else:
            e2 = dict(env)
            e2["%assigned"] = set()
            be = (("tuple", ()), e2)
        self._join(env, [bt, be])
        return phi([bt[0], be[0]])

    def _match(self, n, env):
        scrut = self.eval(n["e"], env)
        branches = []
        for a in n["arms"]:
            def binder(e2, p=a["pat"], s=scrut):
                self.bind(p, s, e2)
            branches.append(self._branch(a["body"], env, binder))
        self._join(env, branches)
        vals = [v for v, _ in branches if v != ("never",)]
        return phi(vals) if vals else ("never",)


def _names(p):
    from .core import pat_binds

    return pat_binds(p)


# ---------------------------------------------------------------------- helpers over terms

TRANSPARENT = {"clone", "unwrap", "as_ref", "deref", "to_owned", "borrow", "as_slice", "to_vec", "as_deref", "cloned", "expect", "to_string"}


def strip(t, transparent=TRANSPARENT):
    """Peel value-preserving wrappers: clone/unwrap/as_ref/…, `?`, Ok(x)/Some(x) constructors and Ok/Some projections."""
    while True:
        if t[0] == "m" and t[1] in transparent and (not t[3] or t[1] == "expect"):
            t = t[2]
        elif t[0] == "try":
            t = t[1]
        elif t[0] == "call" and t[1] in ("Ok", "Some") and len(t[2]) == 1:
            t = t[2][0]
        elif t[0] == "proj" and t[1] in ("Ok", "Some") and t[2] == 0:
            t = t[3]
        else:
            return t


def norm(t, transparent=TRANSPARENT):
    """strip() applied at every level of the term."""
    t = strip(t, transparent)
    out = [t[0]]
    for x in t[1:]:
        if isinstance(x, tuple):
            if x and isinstance(x[0], str) and x[0] in _TAGS:
                out.append(norm(x, transparent))
            else:
                ys = []
                for y in x:
                    if isinstance(y, tuple) and y and isinstance(y[0], str) and y[0] in _TAGS:
                        ys.append(norm(y, transparent))
                    elif isinstance(y, tuple) and len(y) == 2 and isinstance(y[1], tuple):
                        ys.append((y[0], norm(y[1], transparent)))
                    else:
                        ys.append(y)
                out.append(tuple(ys))
        else:
            out.append(x)
    return tuple(out)


def tshow(t, depth=0):
    """Compact rendering of a term for messages and evidence."""
    k = t[0]
    if depth > 8:
        return "…"
    d = depth + 1
    if k in ("var", "path"):
        return t[1]
    if k == "lit":
        return repr(t[1]) if not isinstance(t[1], bool) else str(t[1]).lower()
    if k == "m":
        return "%s.%s(%s)" % (tshow(t[2], d), t[1], ", ".join(tshow(a, d) for a in t[3]))
    if k == "call":
        return "%s(%s)" % (t[1], ", ".join(tshow(a, d) for a in t[2]))
    if k == "callx":
        return "(%s)(%s)" % (tshow(t[1], d), ", ".join(tshow(a, d) for a in t[2]))
    if k == "tuple":
        return "(%s)" % ", ".join(tshow(a, d) for a in t[1])
    if k == "array":
        return "[%s]" % ", ".join(tshow(a, d) for a in t[1])
    if k == "index":
        return "%s[%s]" % (tshow(t[1], d), tshow(t[2], d))
    if k == "field":
        return "%s.%s" % (tshow(t[1], d), t[2])
    if k == "bin":
        return "(%s %s %s)" % (tshow(t[2], d), t[1], tshow(t[3], d))
    if k == "not":
        return "!%s" % tshow(t[1], d)
    if k == "neg":
        return "-%s" % tshow(t[1], d)
    if k == "try":
        return tshow(t[1], d) + "?"
    if k == "phi":
        return "one-of{%s}" % " | ".join(tshow(a, d) for a in t[1])
    if k == "proj":
        return "%s#%d<%s>" % (t[1], t[2], tshow(t[3], d))
    if k == "sproj":
        return "%s.%s<%s>" % (t[1], t[2], tshow(t[3], d))
    if k == "tproj":
        return "%s.%d" % (tshow(t[2], d), t[1])
    if k == "elem":
        return "%s[%d]" % (tshow(t[2], d), t[1])
    if k == "closure":
        return "<closure>"
    if k == "macro":
        return "%s!(%s)" % (t[1], "…" if t[2] is None else ", ".join(tshow(a, d) for a in t[2]))
    if k == "struct":
        return "%s{%s}" % (t[1], ", ".join("%s: %s" % (n, tshow(v, d)) for n, v in t[2]))
    if k == "cast":
        return "%s as %s" % (tshow(t[1], d), t[2])
    if k == "unk":
        return "?<%s>" % t[1]
    return "<%s>" % k


def subterms(t):
    """All sub-terms (pre-order), not entering closures."""
    yield t
    for x in t[1:]:
        if isinstance(x, tuple):
            if x and isinstance(x[0], str) and x[0] in _TAGS:
                for y in subterms(x):
                    yield y
            else:
                for y in x:
                    if isinstance(y, tuple) and y and isinstance(y[0], str) and y[0] in _TAGS:
                        for z in subterms(y):
                            yield z
                    elif isinstance(y, tuple) and len(y) == 2 and isinstance(y[1], tuple):
                        for z in subterms(y[1]):
                            yield z


_TAGS = {"var", "path", "lit", "m", "call", "callx", "tuple", "array", "index", "field", "bin", "not", "neg", "try", "cast", "struct", "closure", "macro", "phi", "proj", "sproj", "tproj", "elem", "unk", "never"}


def split_or(pat):
    """Top-level alternatives of a pattern."""
    if pat["k"] == "or":
        out = []
        for c in pat["cases"]:
            out += split_or(c)
        return out
    return [pat]
