"""Normaliser for the terms produced by util_terms (C01 S1/S3/S4, C09 W1).

Algebra implemented (and nothing more): the field axioms of + − × ÷ on rational functions over
opaque atoms (equality by cross-multiplication), integer-constant powers, associativity /
commutativity / idempotence / flattening of max and min, constant folding inside max/min,
positive homogeneity of max/min (a common positive factor or denominator is pulled out; positivity
is known for positive constants, for atoms declared positive by the caller, and for max(.., c>0, ..)),
abs(t) = t for syntactically non-negative t (even powers, sqrt, abs, max with a constant >= 0).
Every other function (case, is_null, casts, sqrt, clamp, ...) is an uninterpreted atom whose
arguments are normalised recursively.  Two terms are *proved equal* iff their normal forms
coincide; when they do not, `witness` searches a valuation of the leaves on which the two terms
evaluate differently (a concrete counter-example for the report).

Algebraic term language:  ("num", Fraction) | ("leaf", key) | ("op", name, (args…))
with interpreted names add mul div neg pow max min abs sqrt.
"""
import math
from fractions import Fraction

ARITH = {"+": "add", "*": "mul", "/": "div"}
BUILDER_OPS = {
    "Plus": "add", "Multiply": "mul", "Divide": "div", "Opposite": "neg", "Pow": "pow",
    "Greatest": "max", "Least": "min", "Sqrt": "sqrt", "Abs": "abs",
}
APP_OPS = {"max": "max", "min": "min", "abs": "abs", "sqrt": "sqrt", "neg": "neg", "unsigned_abs": "abs", "powi": "pow", "powf": "pow"}


def N(x):
    return ("num", Fraction(x))


def L(key):
    return ("leaf", key)


def op(name, *args):
    return ("op", name, tuple(args))


def to_alg(v, leaf=None):
    """util_terms value -> algebraic term.  `leaf(v)` may map a value to a term (symbol substitution)."""
    if leaf is not None:
        r = leaf(v)
        if r is not None:
            return r
    k = v[0]
    rec = lambda x: to_alg(x, leaf)
    if k == "num":
        return v
    if k == "x":
        nm, args = v[1], v[2]
        if nm == "val":
            return rec(args[0])
        if nm == "col":
            return L(v)
        if nm == "Minus" and len(args) == 2:
            return op("add", rec(args[0]), op("neg", rec(args[1])))
        if nm in BUILDER_OPS:
            return op(BUILDER_OPS[nm], *[rec(a) for a in args])
        return op(nm, *[rec(a) for a in args])
    if k == "app":
        nm, args = v[1], v[2]
        if nm in ARITH and len(args) == 2:
            return op(ARITH[nm], rec(args[0]), rec(args[1]))
        if nm == "-" and len(args) == 2:
            return op("add", rec(args[0]), op("neg", rec(args[1])))
        if nm in APP_OPS:
            return op(APP_OPS[nm], *[rec(a) for a in args])
        if nm in ("as f64", "from") and len(args) == 1:
            return rec(args[0])
        return op("fn:" + nm, *[rec(a) for a in args])
    if k == "ite":
        return op("ite", L(v[1]), rec(v[2]), rec(v[3]))
    return L(v)


# ---------------------------------------------------------------------------- polynomials over atoms


def p_const(c):
    return {(): Fraction(c)} if c != 0 else {}


def p_add(a, b, s=1):
    out = dict(a)
    for m, c in b.items():
        c2 = out.get(m, 0) + s * c
        if c2 == 0:
            out.pop(m, None)
        else:
            out[m] = c2
    return out


def m_mul(m1, m2):
    d = dict(m1)
    for a, e in m2:
        d[a] = d.get(a, 0) + e
    return tuple(sorted((a, e) for a, e in d.items() if e != 0))


def p_mul(a, b):
    out = {}
    for m1, c1 in a.items():
        for m2, c2 in b.items():
            m = m_mul(m1, m2)
            c = out.get(m, 0) + c1 * c2
            if c == 0:
                out.pop(m, None)
            else:
                out[m] = c
    return out


def p_scale(a, c):
    return {m: x * c for m, x in a.items()} if c != 0 else {}


class Rat:
    __slots__ = ("n", "d")

    def __init__(self, n, d=None):
        self.n = n
        self.d = d if d is not None else p_const(1)

    def key(self):
        return (tuple(sorted(self.n.items())), tuple(sorted(self.d.items())))


class Ctx:
    def __init__(self, positive=()):
        self.atoms = []  # ("leaf", key) | ("fn", name, (Rat…))
        self.pos = set()
        self.nonneg = set()
        self.positive_keys = set(positive)

    # ------------------------------------------------------------------ rational functions
    def simp(self, r):
        n, d = r.n, r.d
        if not n:
            return Rat({}, p_const(1))
        # cancel the common monomial content and make the denominator's content 1
        mons = list(n) + list(d)
        common = {}
        first = True
        for m in mons:
            dm = dict(m)
            if first:
                common = dict(dm)
                first = False
            else:
                common = {a: min(e, dm.get(a, 0)) for a, e in common.items() if dm.get(a, 0) > 0}
        if common:
            inv = tuple(sorted((a, -e) for a, e in common.items() if e > 0))
            n = {m_mul(m, inv): c for m, c in n.items()}
            d = {m_mul(m, inv): c for m, c in d.items()}
        if len(d) == 1:
            (m, c), = d.items()
            if m == ():
                return Rat(p_scale(n, 1 / c), p_const(1))
        lead = d[min(d)]
        return Rat(p_scale(n, 1 / lead), p_scale(d, 1 / lead))

    def add(self, a, b):
        if a.d == b.d:
            return self.simp(Rat(p_add(a.n, b.n), a.d))
        return self.simp(Rat(p_add(p_mul(a.n, b.d), p_mul(b.n, a.d)), p_mul(a.d, b.d)))

    def mul(self, a, b):
        return self.simp(Rat(p_mul(a.n, b.n), p_mul(a.d, b.d)))

    def neg(self, a):
        return Rat(p_scale(a.n, -1), a.d)

    def inv(self, a):
        if not a.n:
            raise ZeroDivisionError("division by the zero term")
        return self.simp(Rat(a.d, a.n))

    def eq(self, a, b):
        return p_mul(a.n, b.d) == p_mul(b.n, a.d)

    def const_of(self, r):
        if not r.n:
            return Fraction(0)
        if len(r.n) == 1 and () in r.n and len(r.d) == 1 and () in r.d:
            return r.n[()] / r.d[()]
        return None

    # ------------------------------------------------------------------ atoms
    def atom(self, desc, commutative=False):
        for i, a in enumerate(self.atoms):
            if a[0] != desc[0]:
                continue
            if desc[0] == "leaf":
                if a[1] == desc[1]:
                    return i
                continue
            if a[1] != desc[1] or len(a[2]) != len(desc[2]):
                continue
            if commutative:
                left = list(a[2])
                ok = True
                for x in desc[2]:
                    for j, y in enumerate(left):
                        if self.eq(x, y):
                            del left[j]
                            break
                    else:
                        ok = False
                        break
                if ok:
                    return i
            elif all(self.eq(x, y) for x, y in zip(a[2], desc[2])):
                return i
        self.atoms.append(desc)
        i = len(self.atoms) - 1
        if desc[0] == "leaf" and desc[1] in self.positive_keys:
            self.pos.add(i)
            self.nonneg.add(i)
        return i

    def atom_rat(self, i):
        return Rat({((i, 1),): Fraction(1)}, p_const(1))

    def is_pos_monomial_poly(self, p):
        """p is c·m with c > 0 and m a product of positive atoms."""
        if len(p) != 1:
            return False
        (m, c), = p.items()
        return c > 0 and all(a in self.pos for a, _ in m)

    def is_nonneg(self, r):
        if not self.is_pos_monomial_poly(r.d):
            return False
        for m, c in r.n.items():
            if c < 0:
                return False
            for a, e in m:
                if e % 2 and a not in self.nonneg:
                    return False
        return True

    # ------------------------------------------------------------------ normalisation
    def norm(self, t):
        k = t[0]
        if k == "num":
            return Rat(p_const(t[1]), p_const(1))
        if k == "leaf":
            return self.atom_rat(self.atom(("leaf", t[1])))
        name, args = t[1], t[2]
        if name == "add":
            r = Rat({}, p_const(1))
            for a in args:
                r = self.add(r, self.norm(a))
            return r
        if name == "mul":
            r = Rat(p_const(1), p_const(1))
            for a in args:
                r = self.mul(r, self.norm(a))
            return r
        if name == "neg":
            return self.neg(self.norm(args[0]))
        if name == "div":
            return self.mul(self.norm(args[0]), self.inv(self.norm(args[1])))
        if name == "pow" and len(args) == 2:
            e = self.const_of(self.norm(args[1]))
            if e is not None and e.denominator == 1 and abs(e) <= 8:
                b = self.norm(args[0])
                if e < 0:
                    b = self.inv(b)
                r = Rat(p_const(1), p_const(1))
                for _ in range(abs(int(e))):
                    r = self.mul(r, b)
                return r
        if name in ("max", "min"):
            return self.extremum(name, [self.norm(a) for a in args])
        if name == "abs" and len(args) == 1:
            a = self.norm(args[0])
            if self.is_nonneg(a):
                return a
            i = self.atom(("fn", "abs", (a,)))
            self.nonneg.add(i)
            return self.atom_rat(i)
        nargs = tuple(self.norm(a) for a in args)
        i = self.atom(("fn", name, nargs))
        if name == "sqrt":
            self.nonneg.add(i)
        return self.atom_rat(i)

    def extremum(self, name, args):
        # flatten nested atoms of the same operator
        flat = []
        for a in args:
            inner = None
            if len(a.n) == 1 and len(a.d) == 1 and () in a.d and a.d[()] == 1:
                (m, c), = a.n.items()
                if c == 1 and len(m) == 1 and m[0][1] == 1 and self.atoms[m[0][0]][0] == "fn" and self.atoms[m[0][0]][1] == name:
                    inner = list(self.atoms[m[0][0]][2])
            flat += inner if inner is not None else [a]
        # positive homogeneity: common positive denominator and content
        scale = Rat(p_const(1), p_const(1))
        if all(self.is_pos_monomial_poly(a.d) for a in flat):
            lcm = {}
            for a in flat:
                (m, _c), = a.d.items()
                for at, e in m:
                    lcm[at] = max(lcm.get(at, 0), e)
            lm = tuple(sorted(lcm.items()))
            lrat = Rat({lm: Fraction(1)}, p_const(1))
            flat = [self.mul(a, lrat) for a in flat]
            scale = self.inv(lrat)
            coefs = [abs(c) for a in flat for c in a.n.values()]
            if coefs:
                g = coefs[0]
                for c in coefs[1:]:
                    g = Fraction(math.gcd(g.numerator * c.denominator, c.numerator * g.denominator), g.denominator * c.denominator)
                common = None
                for a in flat:
                    for m in a.n:
                        dm = {at: e for at, e in m if at in self.pos and e > 0}
                        common = dm if common is None else {at: min(e, dm.get(at, 0)) for at, e in common.items() if dm.get(at, 0) > 0}
                cm = tuple(sorted((common or {}).items()))
                content = Rat({cm: g}, p_const(1))
                ci = self.inv(content)
                flat = [self.mul(a, ci) for a in flat]
                scale = self.mul(scale, content)
        # constants, duplicates
        consts = [self.const_of(a) for a in flat]
        cs = [c for c in consts if c is not None]
        rest = [a for a, c in zip(flat, consts) if c is None]
        uniq = []
        for a in rest:
            if not any(self.eq(a, b) for b in uniq):
                uniq.append(a)
        if cs:
            c = max(cs) if name == "max" else min(cs)
            uniq.append(Rat(p_const(c), p_const(1)))
        if len(uniq) == 1:
            return self.mul(scale, uniq[0])
        uniq.sort(key=lambda r: repr(r.key()))
        i = self.atom(("fn", name, tuple(uniq)), commutative=True)
        if name == "max":
            if cs and max(cs) > 0:
                self.pos.add(i)
            if cs and max(cs) >= 0 or any(self.is_nonneg(a) for a in uniq):
                self.nonneg.add(i)
        return self.mul(scale, self.atom_rat(i))

    # ------------------------------------------------------------------ printing
    def show(self, r):
        def mono(m, c):
            parts = [] if c == 1 and m else [str(c)]
            for a, e in m:
                s = self.show_atom(a)
                parts.append(s if e == 1 else "%s^%d" % (s, e))
            return "*".join(parts)

        def poly(p):
            if not p:
                return "0"
            return " + ".join(mono(m, c) for m, c in sorted(p.items(), key=lambda kv: repr(kv[0])))

        n, d = poly(r.n), poly(r.d)
        if d == "1":
            return n
        return "(%s) / (%s)" % (n, d)

    def show_atom(self, i):
        a = self.atoms[i]
        if a[0] == "leaf":
            k = a[1]
            if isinstance(k, tuple):
                from .util_terms import fmt

                return fmt(k)
            return str(k)
        return "%s(%s)" % (a[1].replace("fn:", ""), ", ".join(self.show(x) for x in a[2]))


def equal(t1, t2, positive=()):
    """(proved_equal, normal form 1, normal form 2)"""
    ctx = Ctx(positive)
    try:
        a, b = ctx.norm(t1), ctx.norm(t2)
    except ZeroDivisionError as e:
        return False, "division by zero: %s" % e, ""
    return ctx.eq(a, b), ctx.show(a), ctx.show(b)


# ---------------------------------------------------------------------------- numeric witness


def leaves(t, acc=None):
    acc = [] if acc is None else acc
    if t[0] == "leaf":
        if t[1] not in acc:
            acc.append(t[1])
    elif t[0] == "op":
        for a in t[2]:
            leaves(a, acc)
    return acc


def evaluate(t, val):
    k = t[0]
    if k == "num":
        return float(t[1])
    if k == "leaf":
        return val[t[1]]
    name = t[1]
    a = [evaluate(x, val) for x in t[2]]
    if name == "add":
        return sum(a)
    if name == "mul":
        r = 1.0
        for x in a:
            r *= x
        return r
    if name == "neg":
        return -a[0]
    if name == "div":
        return a[0] / a[1]
    if name == "pow":
        return a[0] ** a[1]
    if name == "max":
        return max(a)
    if name == "min":
        return min(a)
    if name == "abs":
        return abs(a[0])
    if name == "sqrt":
        return math.sqrt(a[0])
    # uninterpreted: an injective-looking mix of the name and the argument values
    h = float(sum(ord(c) * (i + 1) for i, c in enumerate(name)) % 97) + 0.37
    for i, x in enumerate(a):
        h = h * 1.618 + x * (i + 2.5)
    return h


def witness(t1, t2, positive=(), tries=60):
    """A valuation of the leaves (small integers; > 0 for `positive` keys) on which t1 and t2 differ, or None."""
    ls = leaves(t1) + [x for x in leaves(t2) if x not in leaves(t1)]
    seed = 12345
    for _ in range(tries):
        val = {}
        for l in ls:
            seed = (seed * 1103515245 + 12345) % (1 << 31)
            v = (seed >> 8) % 9 + 1
            if l not in positive and (seed >> 4) % 5 == 0:
                v = -v
            val[l] = float(v)
        try:
            a, b = evaluate(t1, val), evaluate(t2, val)
        except (ZeroDivisionError, ValueError, OverflowError):
            continue
        if isinstance(a, complex) or isinstance(b, complex):
            continue
        if abs(a - b) > 1e-9 * max(1.0, abs(a), abs(b)):
            return val, a, b
    return None
