"""Which root labels an entry point of rewriting/mod.rs accepts — read semantically.

The two entry points `rewrite_with_differential_privacy` / `rewrite_as_privacy_unit_preserving` run the candidates produced by
`select_rewriting_rules(..)` through an iterator chain that keeps a candidate only for some labels of its root and turns it into
(rewriting, score).  The chain is written in many equivalent ways:

    .filter_map(|c| match c.attributes().output() { Property::A | Property::B => Some((c.rewrite(..), c.accept(Score))), _ => None })
    .filter(|c| matches!(c.attributes().output(), Property::A | Property::B)).map(|c| (c.rewrite(..), c.accept(Score)))
    .filter_map(|c| { let ok = match .. { .. => true, _ => false }; if !ok { return None; } ..; Some((rewriting, score)) })

`acceptance(f, src)` evaluates the closures of that chain for every Property label L (the candidate's root label is the only unknown)
and returns the set of labels that survive, plus whether every `.rewrite(..)` call sits after / under the filter.
"""
from .core import find, walk, show, path_of, pat_binds

PROPS = ("Private", "SyntheticData", "PrivacyUnitPreserving", "DifferentiallyPrivate", "Published", "Public")


class Undecided(Exception):
    pass


SOME, NONE = ("some",), ("none",)


def _prop_of_pat(p):
    """labels a pattern accepts: set of names, or 'all' for a catch-all, or None when it is not a Property pattern"""
    k = p["k"]
    if k in ("wild", "ident"):
        return "all"
    if k == "ref":
        return _prop_of_pat(p["pat"])
    if k == "exprpat":  # matches!(x, A | B) in canonical form: the pattern is kept as an expression `A | B`
        e = p["e"]
        out = set()
        todo = [e]
        while todo:
            x = todo.pop()
            if x["k"] == "binary" and x["op"].strip() == "|":
                todo += [x["lhs"], x["rhs"]]
            elif x["k"] == "paren":
                todo.append(x["e"])
            elif x["k"] == "path" and len(x["segs"]) >= 2 and x["segs"][-2] == "Property":
                out.add(x["segs"][-1])
            elif x["k"] == "unary" and x["op"].strip() == "&":
                todo.append(x["e"])
            else:
                return None
        return out
    if k == "or":
        out = set()
        for c in p["cases"]:
            r = _prop_of_pat(c)
            if r is None:
                return None
            if r == "all":
                return "all"
            out |= r
        return out
    if k == "path" and len(p["segs"]) >= 2 and p["segs"][-2] == "Property":
        return {p["segs"][-1]}
    return None


def _is_output(e):
    while e["k"] in ("ref", "paren") or (e["k"] == "unary" and e["op"].strip() in ("*", "&")):
        e = e["e"]
    return e["k"] == "mcall" and e["m"] == "output" and not e["args"]


class _Ev:
    def __init__(self, label):
        self.L = label

    def block(self, b, env):
        if b["k"] != "block":
            return self.ev(b, env)
        env = dict(env)
        val = None
        for i, st in enumerate(b["stmts"]):
            if st["k"] == "let":
                if st["pat"]["k"] == "ident" and st.get("init") is not None:
                    try:
                        env[st["pat"]["name"]] = self.ev(st["init"], env)
                    except Undecided:
                        env[st["pat"]["name"]] = ("opaque",)
                else:
                    for nm in pat_binds(st["pat"]):
                        env[nm] = ("opaque",)
            elif st["k"] == "expr":
                e = st["e"]
                last = i == len(b["stmts"]) - 1
                if e["k"] == "return":
                    return self.ev(e["e"], env) if e.get("e") is not None else ("opaque",)
                if e["k"] == "if" and not last and e.get("else") is None:
                    # `if c { return X; }`
                    c = self.ev(e["cond"], env)
                    if c not in (True, False):
                        raise Undecided("condition %s" % show(e["cond"], 60))
                    if c:
                        r = self.block(e["then"], env)
                        if self._returns(e["then"]):
                            return r
                    continue
                if last and not st.get("semi"):
                    val = self.ev(e, env)
        return val if val is not None else ("opaque",)

    def _returns(self, b):
        return any(x["k"] == "return" for x in walk(b))

    def ev(self, e, env):
        k = e["k"]
        if k == "paren":
            return self.ev(e["e"], env)
        if k == "block":
            return self.block(e, env)
        if k == "lit" and e.get("t") == "bool":
            return bool(e["v"])
        if k == "path":
            if len(e["segs"]) == 1:
                if e["segs"][0] == "None":
                    return NONE
                if e["segs"][0] in env:
                    return env[e["segs"][0]]
            return ("opaque",)
        if k == "unary" and e["op"].strip() == "!":
            v = self.ev(e["e"], env)
            if v in (True, False):
                return not v
            raise Undecided("negation of %s" % show(e["e"], 60))
        if k == "binary" and e["op"].strip() in ("&&", "||"):
            a, b = self.ev(e["lhs"], env), self.ev(e["rhs"], env)
            if a in (True, False) and b in (True, False):
                return (a and b) if e["op"].strip() == "&&" else (a or b)
            raise Undecided("connective over %s" % show(e, 60))
        if k == "binary" and e["op"].strip() in ("==", "!=") and (_is_output(e["lhs"]) or _is_output(e["rhs"])):
            other = e["rhs"] if _is_output(e["lhs"]) else e["lhs"]
            while other["k"] in ("ref", "paren") or (other["k"] == "unary" and other["op"].strip() in ("*", "&")):
                other = other["e"]
            if other["k"] == "path" and len(other["segs"]) >= 2 and other["segs"][-2] == "Property":
                eq = other["segs"][-1] == self.L
                return eq if e["op"].strip() == "==" else not eq
            raise Undecided("comparison %s" % show(e, 60))
        if k == "call":
            p = path_of(e["f"]) or ""
            if p == "Some":
                return SOME
            return ("opaque",)
        if k == "if":
            if e["cond"]["k"] == "letcond":
                raise Undecided("if-let %s" % show(e["cond"], 60))
            c = self.ev(e["cond"], env)
            if c not in (True, False):
                raise Undecided("condition %s" % show(e["cond"], 60))
            if c:
                return self.block(e["then"], env)
            return self.block(e["else"], env) if e.get("else") is not None else ("opaque",)
        if k == "match":
            if not _is_output(e["e"]):
                sv = None
                if e["e"]["k"] == "path" and len(e["e"]["segs"]) == 1 and env.get(e["e"]["segs"][0]) == ("label",):
                    sv = True
                if not sv:
                    raise Undecided("match on %s" % show(e["e"], 60))
            for a in e["arms"]:
                if a.get("guard"):
                    raise Undecided("guarded arm")
                r = _prop_of_pat(a["pat"])
                if r is None:
                    raise Undecided("pattern %s" % show(a["pat"], 60))
                if r == "all" or self.L in r:
                    return self.block(a["body"], env) if a["body"]["k"] == "block" else self.ev(a["body"], env)
            raise Undecided("no arm for %s" % self.L)
        if k == "mcall":
            if e["m"] in ("then_some",) and len(e["args"]) == 1:
                c = self.ev(e["recv"], env)
                if c in (True, False):
                    return SOME if c else NONE
            if e["m"] == "then" and len(e["args"]) == 1:
                c = self.ev(e["recv"], env)
                if c in (True, False):
                    return SOME if c else NONE
            if _is_output(e):
                return ("label",)
            return ("opaque",)
        if k == "macro" and e.get("name") == "matches" and e.get("args") and len(e["args"]) == 2:
            if not _is_output(e["args"][0]):
                raise Undecided("matches! on %s" % show(e["args"][0], 60))
            r = _prop_of_pat({"k": "exprpat", "e": e["args"][1]})
            if r is None:
                raise Undecided("matches! pattern")
            return r == "all" or self.L in r
        if k in ("tuple", "struct", "closure", "ref", "field", "index", "macro", "try", "cast", "array"):
            return ("opaque",)
        return ("opaque",)


def acceptance(f, src):
    """-> (accepted labels, rewrite_outside_filter: bool, stages description).  Raises Undecided."""
    from .canon import canon_view

    g = canon_view(f, src, multi_use=False)
    # the chain that starts at select_rewriting_rules(..): collect, in order, the filter / filter_map / map stages applied to it (through named locals)
    sel = [m for m in find(g.body, "mcall") if m["m"] == "select_rewriting_rules"]
    if len(sel) != 1:
        raise Undecided("expected one select_rewriting_rules(..) call, found %d" % len(sel))
    stages = []

    def chain_above(node):
        """mcalls whose receiver chain contains `node` (outermost last)"""
        out = []
        for m in find(g.body, "mcall"):
            r = m["recv"]
            depth = 0
            while r is not None and r.get("k") == "mcall":
                if r is node:
                    out.append(m)
                    break
                r = r["recv"]
                depth += 1
            else:
                if r is node:
                    out.append(m)
        return out

    def receiver_depth(m, node):
        d, r = 0, m["recv"]
        while r is not node:
            r = r["recv"]
            d += 1
        return d

    cur = sel[0]
    seen_nodes = set()
    for _ in range(6):
        above = sorted(chain_above(cur), key=lambda m: receiver_depth(m, cur))
        for m in above:
            if id(m) in seen_nodes:
                continue
            seen_nodes.add(id(m))
            if m["m"] in ("filter", "filter_map", "map", "flat_map", "take", "skip", "take_while", "skip_while", "step_by", "find", "find_map", "nth", "last", "next"):
                stages.append(m)
        # continue through a named local: `let candidates = <chain>;` .. `candidates.into_iter().filter(..)`
        top = above[-1] if above else cur
        nxt = None
        for st in find(g.body, "let"):
            if st.get("init") is top and st["pat"]["k"] == "ident":
                nm = st["pat"]["name"]
                uses = [m for m in find(g.body, "mcall") if path_of(m["recv"]) == nm]
                if len(uses) == 1:
                    nxt = uses[0]
        if nxt is None:
            break
        # the local itself becomes the node whose chain we follow; its first method is part of the chain
        if nxt["m"] in ("filter", "filter_map", "map"):
            stages.append(nxt)
            seen_nodes.add(id(nxt))
        cur = nxt
    trunc = [m["m"] for m in stages if m["m"] not in ("filter", "filter_map", "map")]
    if trunc:
        raise Undecided("the candidates go through %s before the selection of the best one" % trunc)
    tests = [m for m in stages if m["m"] in ("filter", "filter_map")]
    if not tests:
        raise Undecided("no filter / filter_map over the candidates")
    accepted = set()
    for L in PROPS:
        keep = True
        for m in tests:
            cl = m["args"][0] if m["args"] and m["args"][0]["k"] == "closure" else None
            if cl is None:
                raise Undecided("%s with a non-closure argument" % m["m"])
            ev = _Ev(L)
            env = {}
            v = ev.block(cl["body"], env) if cl["body"]["k"] == "block" else ev.ev(cl["body"], env)
            if m["m"] == "filter":
                if v not in (True, False):
                    raise Undecided("filter predicate is not a function of the root label: %s" % show(cl["body"], 80))
                keep = keep and v
            else:
                if v == NONE:
                    keep = False
                elif v == SOME:
                    pass
                else:
                    raise Undecided("filter_map result is not Some(..) / None as a function of the root label: %s" % show(cl["body"], 80))
            if not keep:
                break
        if keep:
            accepted.add(L)
    # every `.rewrite(..)` happens in a closure of a stage at or after the first test (or under the accepting branch of that test)
    first = stages.index(tests[0])
    allowed = set()
    for m in stages[first:]:
        for a in m["args"]:
            for x in walk(a):
                allowed.add(id(x))
    outside = [x for x in find(g.body, "mcall") if x["m"] == "rewrite" and id(x) not in allowed]
    return accepted, bool(outside), [m["m"] for m in stages]
