"""C16 — deterministic compilation (rules D1–D4): no hash-order, global-counter, process-state or ambient
non-determinism reachable from parsing, rendering or typing.

Reachability is instantiation-aware (monomorphic call graph from the rustc_private driver, qv/mono.py):
generic visitors are followed per instantiation, closures stored as `dyn Fn` only when a matching
virtual call is reachable.  Sites reachable only from the DP/PUP rewriting are listed in the evidence as
observations (the property statement is about parsing and rendering) and are not violations.
"""
import re

from . import facts
from .reach import Reach, ENTRY, FLOORS

LEVEL = "other"
EXHAUSTIVE = True
SCOPE = ["PARSE", "RENDER", "TYPE"]

HASH_TY = re.compile(r"(HashMap|HashSet|hash_map::|hash_set::)")
HASH_ITER = re.compile(r"::(iter|iter_mut|keys|values|values_mut|into_keys|into_values|drain|into_iter|difference|union|intersection|symmetric_difference|extract_if)$")
COUNTER_FNS = {"namer::new_name": "new_name", "namer::new_id": "new_id", "namer::count": "count"}
ALLOWED_NAMERS = {"namer::name_from_content", "namer::new_name_outside", "namer::hash"}
AMBIENT = [
    (re.compile(r"^rand::|^rand_core::|^<rand"), "random number generator"),
    (re.compile(r"^std::time::(SystemTime|Instant)::now$"), "clock"),
    (re.compile(r"^std::env::"), "process environment"),
    (re.compile(r"^std::thread::(current|ThreadId)"), "thread identity"),
    (re.compile(r"^std::process::id$"), "process id"),
    (re.compile(r"as std::fmt::Pointer>::fmt$"), "pointer formatting"),
    (re.compile(r"^chrono::.*::(now|today)$"), "clock"),
]
# order-insensitive consumers of an iterator (callee def path suffix -> reason)
ORDER_FREE = {
    "all": "conjunction", "any": "disjunction", "count": "cardinality", "len": "cardinality", "contains": "membership", "is_empty": "cardinality",
    "min": "order statistic", "max": "order statistic", "sum": "commutative (integers)", "is_subset": "set relation", "is_superset": "set relation", "is_disjoint": "set relation",
}
ADAPTORS = {"map", "filter", "filter_map", "cloned", "copied", "into_iter", "iter", "chain", "flat_map", "inspect", "by_ref", "peekable", "flatten"}


def short(path):
    return path.rsplit("::", 1)[-1]


def consumer_of(mir, body, bi):
    """Follow the destination local of the call in block bi through iterator adaptors to its consumer.
    Returns (callee_path, full) of the first non-adaptor call that receives the value, or None."""
    blocks = body["blocks"]
    t = blocks[bi]["t"]
    cur = {t[3][0]}
    seenb = set()
    nxt = t[4]
    steps = 0
    while nxt is not None and nxt not in seenb and steps < 60:
        seenb.add(nxt)
        steps += 1
        bl = blocks[nxt]
        for st in bl["s"]:
            dst, rv = st[0], st[1]
            ops = []
            if rv[0] == "use":
                ops = [rv[1]]
            elif rv[0] == "ref":
                if rv[2][0] in cur:
                    cur.add(dst[0])
                continue
            elif rv[0] == "agg":
                ops = rv[2]
            for o in ops:
                if o[0] in ("c", "m") and o[1][0] in cur:
                    cur.add(dst[0])
        tt = bl["t"]
        if tt[0] == "call":
            uses = any(a[0] in ("c", "m") and a[1][0] in cur for a in tt[2])
            if uses:
                c = tt[1]
                if isinstance(c, int):
                    cal = mir.callees[c]
                    nm = short(cal["path"])
                    if nm in ADAPTORS or nm in ("deref", "as_ref", "borrow", "clone"):
                        cur.add(tt[3][0])
                    else:
                        return cal["path"], cal["full"]
                else:
                    return "<indirect>", ""
            nxt = tt[4]
        elif tt[0] == "goto":
            nxt = tt[1]
        elif tt[0] == "drop":
            nxt = tt[2]
        elif tt[0] == "switch":
            # loops over the iterator (`for`): order-sensitive in general
            return "<loop/branch>", ""
        else:
            nxt = None
    return None


def run(rep):
    rep.explanation = (
        "Inventory by reachability over the instantiation-aware call graph of crate qrlew (rustc MIR, cargo +nightly check --lib). "
        "Decides that no hash-order iteration with an order-sensitive consumer (D1), no use of the global name counter (D2), no other process state (D3) and no ambient "
        "non-determinism (D4) is reachable from the parsing, rendering and typing entry points. Does NOT decide semantic equality of re-parsed SQL (C08). "
        "Sites reachable only from the DP/PUP rewriting entry points are listed under coverage.observations_rewrite_scope."
    )
    R = Reach()
    mir, g = R.mir, R.g
    seen, lp, sup, stale = R.reach(SCOPE)
    seen_rw, lp_rw, _, _ = R.reach(["REWRITE"])
    for nm in SCOPE + ["REWRITE"]:
        n = len(R.roots(nm))
        if n < FLOORS[nm]:
            rep.error("entry set %s has %d roots, below the floor %d" % (nm, n, FLOORS[nm]))
    rep.extra["entry_roots"] = {nm: sorted({g.nodes[i]["n"] for i in R.roots(nm)})[:40] for nm in SCOPE + ["REWRITE"]}
    rep.extra["reachable"] = {"instances": len(seen), "local_bodies": len(lp), "of_local_bodies": len(mir.bodies), "mono_graph_nodes": len(g.nodes), "resolution_failures": g.failures}
    rep.extra["suppressed_edges"] = [{"edge": e} for e in sup]
    for s in stale:
        rep.violation("D0", "suppression:%s->%s" % tuple(s["edge"]), "edge suppression no longer valid: new callers %s" % s["unexpected_callers"], "qv/reach.py")
    rep.assume("calls through fn pointers are resolved at the reification site; drop glue is not followed (no Drop impl outside io/)")
    rep.assume("rustc's Instance::try_resolve under TypingEnv::fully_monomorphized resolves every static call (failures counted: %d)" % g.failures)

    rep.rule("D0", "reachability bookkeeping: entry sets non-empty, edge suppressions still justified", floor=0)
    obs = []

    # ---------------- D1 hash-order iteration
    rep.rule(
        "D1",
        "every iteration over a HashMap/HashSet in a body reachable from PARSE u RENDER u TYPE is consumed order-insensitively in the same body "
        "(collected into a BTree*/Hash* container, or all/any/count/len/contains/min/max/sum)",
        floor=0,
        necessary="the iteration order of std hash containers differs between processes (RandomState); any order-sensitive consumer makes names, column order or rendered text differ between two compilations",
    )
    n_sites = 0
    for b in mir.bodies:
        for bi, cal, args, dst, tgt, line, macs, raw in mir.calls(b):
            if not cal or not HASH_TY.search(cal["full"]) or not HASH_ITER.search(cal["path"]):
                continue
            n_sites += 1
            key = "%s->%s" % (b["path"], short(cal["path"]))
            where = "%s:%d" % (b["file"], line)
            cons = consumer_of(mir, b, bi)
            ok = False
            why = "no consumer found"
            if cons:
                cn = short(cons[0])
                if cn in ORDER_FREE:
                    ok, why = True, "%s (%s)" % (cn, ORDER_FREE[cn])
                elif cn in ("collect", "from_iter", "extend") and re.search(r"(BTreeMap|BTreeSet|HashMap|HashSet)", cons[1]):
                    ok, why = True, "collected into an order-free or sorted container"
                else:
                    why = "consumed by %s" % cons[0]
            in_scope = b["path"] in lp
            in_rw = b["path"] in lp_rw
            sample = {"site": key, "where": where, "consumer": why, "reachable_from_parse_render_type": in_scope, "reachable_from_rewrite": in_rw}
            rep.instance("D1", key, sample, nontrivial=in_scope or in_rw)
            if ok:
                continue
            if in_scope:
                rep.violation("D1", key, "hash-order iteration with an order-sensitive consumer (%s); path: %s" % (why, " -> ".join(R.chain(seen, lp[b["path"]])[-6:])), where)
            elif in_rw:
                obs.append(dict(sample, rule="D1"))
    rep.extra["hash_iteration_sites_in_crate"] = n_sites

    # ---------------- D2 global counter
    rep.rule(
        "D2",
        "no call of the global name counter (namer::new_name / new_id -> namer::count) in an instance reachable from PARSE u RENDER u TYPE; names come from name_from_content / new_name_outside",
        floor=1,
        necessary="the counter is process-global: a second compilation of the same text (or a concurrent one) gets different names, so relations and rendered SQL differ",
    )
    for scope_name, sn, lpaths in (("scope", seen, lp), ("rewrite", seen_rw, lp_rw)):
        done = set()
        for i in sn:
            n = g.nodes[i]
            if not n["l"]:
                continue
            for (c, l) in n["c"]:
                cp = g.nodes[c]["p"]
                if cp in COUNTER_FNS and n["p"] not in COUNTER_FNS:
                    key = "%s->%s" % (n["p"], COUNTER_FNS[cp])
                    if (key, scope_name) in done:
                        continue
                    done.add((key, scope_name))
                    body = mir.by_path.get(n["p"])
                    where = "%s:%d" % (body["file"], l) if body else n["p"]
                    if scope_name == "scope":
                        rep.instance("D2", key, {"caller": n["p"], "callee": cp, "where": where})
                        rep.violation("D2", key, "global-counter name reachable from parse/render/type: %s" % " -> ".join(R.chain(sn, i)[-6:] + [cp]), where)
                    elif n["p"] not in lp:
                        obs.append({"rule": "D2", "site": key, "where": where})
    # the allowed namers exist and do not touch the counter
    for p in sorted(ALLOWED_NAMERS):
        b = mir.by_path.get(p)
        rep.instance("D2", "allowed:" + p, {"allowed_namer": p, "present": bool(b)}, nontrivial=False)
        if b:
            for bi, cal, *_ in mir.calls(b):
                if cal and cal["path"] in COUNTER_FNS:
                    rep.violation("D2", p + "->count", "content-based namer uses the global counter", "%s:%d" % (b["file"], b["line"]))

    # ---------------- D3 process state
    rep.rule(
        "D3",
        "statics / thread-locals touched by reachable bodies are within {namer::COUNTER (reachable only through D2 sites), the constant function-implementation tables of expr::implementation}",
        floor=1,
        necessary="any other mutable process state read during compilation makes the result depend on earlier or concurrent compilations",
    )
    ALLOWED_STATICS = {"namer::COUNTER"}
    # immutable statics without interior mutability are constants, not process state (read from the syn facts)
    from .core import Src

    src = Src(facts.src_facts())
    const_statics = set()
    for (_f, mod, it) in src.find_items("static"):
        ty = it.get("ty", "")
        if not it.get("mut") and not re.search(r"(Mutex|RwLock|Cell|Atomic|Once|Lazy|Lock)", ty):
            const_statics.add((mod + "::" if mod else "") + it["name"])
    statics = {}
    for b in mir.bodies:
        for bl in b["blocks"]:
            for st in bl["s"]:
                rv = st[1]
                found = []
                if rv[0] == "tls":
                    found.append(("tls", rv[1]))

                def visit(x):
                    if isinstance(x, list):
                        if len(x) >= 2 and x[0] == "k" and isinstance(x[1], str) and x[1].startswith("static:"):
                            found.append(("static", x[1][7:]))
                        else:
                            for y in x:
                                visit(y)

                visit(rv)
                for kind, name in found:
                    statics.setdefault((kind, name), set()).add(b["path"])
            t = bl["t"]
            if t[0] == "call":
                for a in t[2]:
                    if a[0] == "k" and isinstance(a[1], str) and a[1].startswith("static:"):
                        statics.setdefault(("static", a[1][7:]), set()).add(b["path"])
    for (kind, name), users in sorted(statics.items()):
        users_in = sorted(u for u in users if u in lp)
        key = "%s:%s" % (kind, name)
        rep.instance("D3", key, {"static": name, "kind": kind, "users": sorted(users)[:6], "reachable_users": users_in[:6]}, nontrivial=bool(users_in))
        if not users_in:
            continue
        if name in ALLOWED_STATICS or name in const_statics:
            continue
        if kind == "tls" and name.startswith("expr::implementation::"):
            # constant tables: their initialisers must not reach any nondeterminism source (checked below through reachability of the init closures)
            continue
        rep.violation("D3", key, "process state `%s` used in reachable code (%s)" % (name, users_in[:3]), users_in[0])

    # ---------------- D4 ambient nondeterminism
    rep.rule(
        "D4",
        "no random generator, clock, environment, thread/process identity or pointer formatting is reachable from PARSE u RENDER u TYPE",
        floor=0,
        necessary="each is a value that differs between two runs of the same compilation",
    )
    checked = 0
    for i in seen:
        n = g.nodes[i]
        for rx, what in AMBIENT:
            if rx.search(n["p"]):
                # report at the local caller
                ch = R.chain(seen, i)
                loc = [x for x in ch if not x.startswith(("std::", "core::", "<std::", "alloc::", "rand"))]
                key = "%s->%s" % (g.nodes[seen[i]]["p"] if seen[i] is not None else "?", n["p"])
                rep.violation("D4", key, "%s reachable: %s" % (what, " -> ".join(ch[-6:])), loc[-1] if loc else n["p"])
        checked += 1
    rep.instance("D4", "reachable-instances", {"instances_checked": checked, "patterns": [w for _, w in AMBIENT]})
    # positive control: the patterns do match something in the crate as a whole (rand is used by the DP / sampling code)
    ctrl = [n["p"] for n in g.nodes if any(rx.search(n["p"]) for rx, _ in AMBIENT)]
    rep.instance("D4", "positive-control", {"ambient_sources_anywhere_in_graph": len(ctrl), "examples": sorted(set(ctrl))[:5]}, nontrivial=bool(ctrl))
    if not ctrl:
        rep.error("D4 positive control failed: no ambient-nondeterminism callee found anywhere in the crate graph (pattern table stale?)")
    for i in seen_rw:
        n = g.nodes[i]
        if i in seen:
            continue
        for rx, what in AMBIENT:
            if rx.search(n["p"]) and seen_rw[i] is not None and g.nodes[seen_rw[i]]["l"]:
                obs.append({"rule": "D4", "site": "%s->%s" % (g.nodes[seen_rw[i]]["p"], n["p"]), "what": what})
    rep.extra["observations_rewrite_scope"] = obs[:60]
