"""C16 — deterministic compilation (rules D1–D4): no hash-order, global-counter, process-state or ambient
non-determinism reachable from parsing, rendering or typing.

Reachability is instantiation-aware (monomorphic call graph from the rustc_private driver, qv/mono.py):
generic visitors are followed per instantiation, closures stored as `dyn Fn` only when a matching
virtual call is reachable.  Sites reachable only from the DP/PUP rewriting are listed in the evidence as
observations (the property statement is about parsing and rendering) and are not violations.
"""
import re

from . import facts
from .reach import Reach, ENTRY, FLOORS

LEVEL = "other"
EXHAUSTIVE = True
SCOPE = ["PARSE", "RENDER", "TYPE"]

HASH_TY = re.compile(r"(HashMap|HashSet|hash_map::|hash_set::)")
HASH_ITER = re.compile(r"::(iter|iter_mut|keys|values|values_mut|into_keys|into_values|drain|into_iter|difference|union|intersection|symmetric_difference|extract_if)$")
COUNTER_FNS = {"namer::new_name": "new_name", "namer::new_id": "new_id", "namer::count": "count"}
ALLOWED_NAMERS = {"namer::name_from_content", "namer::new_name_outside", "namer::hash"}
AMBIENT = [
    (re.compile(r"^rand::|^rand_core::|^<rand"), "random number generator"),
    (re.compile(r"^std::time::(SystemTime|Instant)::now$"), "clock"),
    (re.compile(r"^std::env::"), "process environment"),
    (re.compile(r"^std::thread::(current|ThreadId)"), "thread identity"),
    (re.compile(r"^std::process::id$"), "process id"),
    (re.compile(r"as std::fmt::Pointer>::fmt$"), "pointer formatting"),
    (re.compile(r"^chrono::.*::(now|today)$"), "clock"),
]
# order-insensitive consumers of an iterator (callee def path suffix -> reason)
ORDER_FREE = {
    "all": "conjunction", "any": "disjunction", "count": "cardinality", "len": "cardinality", "contains": "membership", "is_empty": "cardinality",
    "min": "order statistic", "max": "order statistic", "sum": "commutative (integers)", "is_subset": "set relation", "is_superset": "set relation", "is_disjoint": "set relation",
}
ADAPTORS = {"map", "filter", "filter_map", "cloned", "copied", "into_iter", "iter", "chain", "flat_map", "inspect", "by_ref", "peekable", "flatten"}


def short(path):
    return path.rsplit("::", 1)[-1]


def consumer_of(mir, body, bi):
    """Follow the destination local of the call in block bi through iterator adaptors to its consumer.
    Returns (callee_path, full) of the first non-adaptor call that receives the value, or None."""
    blocks = body["blocks"]
    t = blocks[bi]["t"]
    cur = {t[3][0]}
    seenb = set()
    nxt = t[4]
    steps = 0
    while nxt is not None and nxt not in seenb and steps < 60:
        seenb.add(nxt)
        steps += 1
        bl = blocks[nxt]
        for st in bl["s"]:
            dst, rv = st[0], st[1]
            ops = []
            if rv[0] == "use":
                ops = [rv[1]]
            elif rv[0] == "ref":
                if rv[2][0] in cur:
                    cur.add(dst[0])
                continue
            elif rv[0] == "agg":
                ops = rv[2]
            for o in ops:
                if o[0] in ("c", "m") and o[1][0] in cur:
                    cur.add(dst[0])
        tt = bl["t"]
        if tt[0] == "call":
            uses = any(a[0] in ("c", "m") and a[1][0] in cur for a in tt[2])
            if uses:
                c = tt[1]
                if isinstance(c, int):
                    cal = mir.callees[c]
                    nm = short(cal["path"])
                    if nm in ADAPTORS or nm in ("deref", "as_ref", "borrow", "clone"):
                        cur.add(tt[3][0])
                    else:
                        return cal["path"], cal["full"]
                else:
                    return "<indirect>", ""
            nxt = tt[4]
        elif tt[0] == "goto":
            nxt = tt[1]
        elif tt[0] == "drop":
            nxt = tt[2]
        elif tt[0] == "switch":
            # loops over the iterator (`for`): order-sensitive in general
            return "<loop/branch>", ""
        else:
            nxt = None
    return None


LOSSLESS = {"hash", "iter", "for_each", "to_be_bytes", "to_le_bytes", "to_bits", "deref", "as_ref", "clone", "as_str", "as_bytes", "borrow", "into_iter", "map", "collect", "to_string", "as_slice"}
MACRO_HASH_IMPLS = {
    "data_type::value::Value": "written inside the `impl_variant_conversions!`-style macro of value.rs: hashes the discriminant and then the payload of every variant ($Variant(variant) => variant.hash(state))",
}
FIELD_EXEMPT = {
    ("data_type::intervals::Intervals", "capacity"): "representation budget (how many intervals are kept before collapsing to the hull): not part of the set of values, never rendered",
}
POINTER_HASH = {
    "data_type::value::Function": "hashes the address of the Arc<dyn Function>: run-dependent, tolerated only while no constructor of value::Function is reachable from PARSE u RENDER u TYPE (checked)",
}


def d5(rep, R, seen):
    """content hash completeness of the generated names"""
    from .core import Src, find, walk, show, path_of

    rep.rule(
        "D5",
        "content-derived names hash the whole content: every local `impl Hash` whose `hash` is reachable from PARSE u RENDER u TYPE (they feed namer::name_from_content) is either derived "
        "(all fields) or a manual impl that passes every field of the struct / the payload of every variant to the hasher through copying projections only "
        "(iter, deref, to_be_bytes ..; no accessor such as .name() or .len()); pointer-address hashing only for types that cannot be constructed in scope",
        floor=40,
        necessary="a Hash that skips a field gives two different relations the same generated name: their CTEs collide in the rendered SQL and the re-parsed query reads one input twice (or names differ between runs for address-based hashes)",
    )
    g, mir = R.g, R.mir
    src = Src(facts.src_facts())
    types = {}
    for i in seen:
        n = g.nodes[i]
        m = re.match(r"^<(.+) as std::hash::Hash>::hash$", n["p"])
        if m and n["l"]:
            types[m.group(1)] = i
    manual = {}
    for (file, module, it) in src.impls:
        if it.get("test") or not (it.get("trait") or "").endswith("Hash"):
            continue
        base = re.sub(r"<.*$", "", it["self_ty"]).split("::")[-1]
        manual[(module, base)] = (file, it)
    for ty in sorted(types):
        base_path = re.sub(r"<.*$", "", ty)
        module, base = base_path.rsplit("::", 1) if "::" in base_path else ("", base_path)
        key = "Hash:" + base_path
        cands = [(mm, b) for (mm, b) in manual if b == base and mm == module]
        defs = [(f, mm, it) for kind in ("struct", "enum") for (f, mm, it) in src.find_items(kind, name=base) if mm == module]
        if not cands:
            derived = [d for d in defs if any("derive" in a and re.search(r"\bHash\b", a) for a in d[2].get("attrs", []))]
            if derived:
                rep.instance("D5", key, {"type": base_path, "impl": "derived"}, nontrivial=False)
            elif base_path in MACRO_HASH_IMPLS:
                rep.instance("D5", key, {"type": base_path, "impl": "macro (reviewed)", "reason": MACRO_HASH_IMPLS[base_path]})
            else:
                rep.undecidable("D5", key, "cannot find the Hash impl of %s in the sources (neither derive nor manual impl)" % base_path, "")
            continue
        file, it = manual[cands[0]]
        fns = [x for x in it["items"] if x["k"] == "fn" and x["name"] == "hash"]
        where = "src/%s:%d" % (file, it["l"])
        if not fns or not defs:
            rep.undecidable("D5", key, "manual impl without readable `hash` / type definition", where)
            continue
        body = fns[0]["body"]
        d = defs[0][2]
        if base_path in POINTER_HASH:
            ctor = [b["path"] for b in mir.bodies if b["path"] in R.reach(SCOPE)[1] and not b["path"].endswith("::clone") and any(st[1][0] == "agg" and st[1][1] == "adt:" + base_path for bl in b["blocks"] for st in bl["s"])]
            rep.instance("D5", key, {"type": base_path, "impl": "address", "constructors_in_scope": ctor, "reason": POINTER_HASH[base_path]})
            if ctor:
                rep.violation("D5", key, "%s is hashed by address and constructed in scope by %s: generated names differ between runs" % (base_path, ctor[:3]), where)
            continue
        if any(is_ptr(c) for c in walk(body)):
            rep.violation("D5", key, "%s hashes a pointer address" % base_path, where)
            continue
        if d["k"] == "struct":
            fields = [f["name"] for f in d["fields"]]
            cover, lossy = set(), []
            whole = False
            for x in walk(body):
                if x["k"] == "mcall":
                    r, chain = x, []
                    while r["k"] in ("mcall", "ref", "paren", "unary"):
                        if r["k"] == "mcall":
                            chain.append(r["m"])
                            r = r["recv"]
                        else:
                            r = r["e"]
                    if r["k"] == "field" and path_of(r["e"]) == "self":
                        cover.add(r["f"] if "f" in r else r.get("name"))
                        lossy += ["self.%s.%s()" % (r.get("f", r.get("name")), m) for m in chain if m not in LOSSLESS]
                if x["k"] == "field" and path_of(x["e"]) == "self":
                    cover.add(x.get("f", x.get("name")))
            missing = [f for f in fields if f not in cover and (base_path, f) not in FIELD_EXEMPT]
            rep.instance("D5", key, {"type": base_path, "impl": "manual", "fields": fields, "exempt": {f: FIELD_EXEMPT[(base_path, f)] for f in fields if (base_path, f) in FIELD_EXEMPT}, "hashed": sorted(c for c in cover if c), "lossy": lossy})
            if missing:
                rep.violation("D5", key + "@fields", "the manual Hash of %s skips field(s) %s" % (base_path, missing), where)
            if lossy:
                rep.violation("D5", key + "@projection", "the manual Hash of %s hashes a projection of its content (%s), not the content" % (base_path, sorted(set(lossy))), where)
        else:
            with_payload = [v["name"] for v in d["variants"] if v.get("fields")]
            ms = [m for m in find(body, "match")]
            got = set()
            lossy = []
            for m in ms:
                for a in m["arms"]:
                    pats = a["pat"]["cases"] if a["pat"]["k"] == "or" else [a["pat"]]
                    for p in pats:
                        if p["k"] in ("tuplestruct", "struct"):
                            v = p["path"]["segs"][-1]
                            binds = pat_binds_local(p)
                            used = all(any(path_of(rr) == b for rr in walk(a["body"])) for b in binds) and bool(binds)
                            if used:
                                got.add(v)
                            for x in find(a["body"], "mcall"):
                                r, chain = x, []
                                while r["k"] == "mcall":
                                    chain.append(r["m"])
                                    r = r["recv"]
                                if path_of(r) in binds:
                                    lossy += ["%s.%s()" % (v, mm) for mm in chain if mm not in LOSSLESS]
            missing = [v for v in with_payload if v not in got]
            disc = any("discriminant" in show(c, 0) for c in find(body, "call"))
            rep.instance("D5", key, {"type": base_path, "impl": "manual", "variants_with_payload": with_payload, "payload_hashed": sorted(got), "discriminant": disc})
            if missing:
                rep.violation("D5", key + "@variants", "the manual Hash of %s ignores the payload of %s" % (base_path, missing), where)
            if not disc:
                rep.violation("D5", key + "@discriminant", "the manual Hash of %s does not hash the variant" % base_path, where)
            if lossy:
                rep.violation("D5", key + "@projection", "the manual Hash of %s hashes a projection of a payload (%s)" % (base_path, sorted(set(lossy))), where)


def is_ptr(c):
    from .core import path_of

    if c["k"] == "call" and (path_of(c["f"]) or "").endswith(("Arc::as_ptr", "Rc::as_ptr", "ptr::addr_of", "ptr::from_ref")):
        return True
    if c["k"] == "mcall" and c["m"] in ("as_ptr", "addr"):
        return True
    if c["k"] == "cast" and "*const" in str(c.get("ty", "")):
        return True
    return False


def pat_binds_local(p):
    from .core import pat_binds

    return [b for b in pat_binds(p)]


FOLDS = ("to_lowercase", "to_uppercase", "to_ascii_lowercase", "to_ascii_uppercase")


def d6(rep, src):
    """Quoted identifiers keep their case: an identifier's text is case-folded only where its quote_style was tested and found absent."""
    from .core import find, walk, show, path_of

    rep.rule(
        "D6",
        "sql/*.rs (non-test): every case fold of an identifier's text (`<id>.value.to_lowercase()` and the like) sits in the branch of a test of the SAME identifier's `quote_style` "
        "that is taken when the identifier is not quoted (`if let Some(_) = id.quote_style {..} else {FOLD}`, `match id.quote_style { None => FOLD, .. }`, `is_none()` / `is_some()` forms)",
        floor=2,
        necessary="the renderer writes every name quoted (`WITH \"map_x\" (\"Total\", \"b\") AS ..`); a reader that folds a quoted name gives the re-parsed relation the schema {total, b}: "
        "not the output schema of the relation the text was rendered from",
    )

    def norm(e):
        while True:
            if e["k"] in ("ref", "paren") or (e["k"] == "unary" and e["op"].strip() in ("&", "*")):
                e = e["e"]
            elif e["k"] == "mcall" and e["m"] in ("clone", "as_str", "to_string", "to_owned", "as_ref", "borrow") and not e["args"]:
                e = e["recv"]
            else:
                return e

    def txt(e):
        return show(norm(e), 0).replace(" ", "")

    def qs_base(e):
        """`B.quote_style` (through & / clone / as_ref) -> text of B"""
        e = norm(e)
        if e["k"] == "field" and e.get("name") == "quote_style":
            return txt(e["e"])
        return None

    def test_of(cond):
        """-> (base, branch in which the identifier is NOT quoted: 'then' | 'else') or None"""
        c = cond
        while c["k"] == "paren":
            c = c["e"]
        if c["k"] == "letcond":
            b = qs_base(c["e"])
            if b is None:
                return None
            p = c["pat"]
            while p["k"] == "ref":
                p = p["pat"]
            if p["k"] == "tuplestruct" and p["path"]["segs"][-1] == "Some":
                return (b, "else")
            if (p["k"] == "path" and p["segs"][-1] == "None") or (p["k"] == "ident" and p["name"] == "None"):
                return (b, "then")
            return None
        if c["k"] == "unary" and c["op"].strip() == "!":
            t = test_of(c["e"])
            return (t[0], "else" if t[1] == "then" else "then") if t else None
        if c["k"] == "mcall" and c["m"] in ("is_some", "is_none") and not c["args"]:
            b = qs_base(c["recv"])
            if b is not None:
                return (b, "then" if c["m"] == "is_none" else "else")
        return None

    sites = []

    def descend(n, unq):
        if isinstance(n, list):
            for x in n:
                descend(x, unq)
            return
        if not isinstance(n, dict):
            return
        k = n.get("k")
        if k == "if":
            t = test_of(n["cond"])
            descend(n["cond"], unq)
            descend(n["then"], unq | {t[0]} if t and t[1] == "then" else unq)
            if n.get("else") is not None:
                descend(n["else"], unq | {t[0]} if t and t[1] == "else" else unq)
            return
        if k == "match":
            b = qs_base(n["e"])
            descend(n["e"], unq)
            seen_some = False
            for a in n["arms"]:
                p = a["pat"]
                while p["k"] == "ref":
                    p = p["pat"]
                none_arm = (p["k"] == "path" and p["segs"][-1] == "None") or (p["k"] == "ident" and p["name"] == "None")
                if p["k"] == "tuplestruct" and p["path"]["segs"][-1] == "Some" and all(e["k"] in ("wild", "ident") for e in p["elems"]):
                    seen_some = True
                rest_arm = p["k"] == "wild" and seen_some
                if a.get("guard"):
                    descend(a["guard"], unq)
                descend(a["body"], unq | {b} if b is not None and (none_arm or rest_arm) and not a.get("guard") else unq)
            return
        if k == "mcall" and n["m"] in FOLDS and not n["args"]:
            r = norm(n["recv"])
            if r["k"] == "field" and r.get("name") == "value":
                sites.append((n, txt(r["e"]), txt(r["e"]) in unq))
        for key, v in n.items():
            if key in ("k", "l"):
                continue
            if isinstance(v, (dict, list)):
                descend(v, unq)

    per_fn = {}
    for f in src.fns:
        if not f.file.startswith("sql/") or f.test or not f.body:
            continue
        sites.clear()
        descend(f.body, frozenset())
        for n, base, ok in sites:
            k = per_fn[(f.qual, base)] = per_fn.get((f.qual, base), 0) + 1
            key = "%s@fold(%s.value)%s" % (f.qual, base, "" if k == 1 else "#%d" % k)
            rep.instance("D6", key, {"fn": f.qual, "identifier": base, "fold": n["m"], "under_unquoted_test": ok})
            if not ok:
                rep.violation("D6", key, "%s folds the case of `%s.value` with .%s() without having tested `%s.quote_style`: a quoted name loses its case" % (f.qual, base, n["m"], base), "src/%s:%d" % (f.file, n["l"]))


def d7(rep, src):
    """A table described by its path (or by its name) gets its other designation from it, not from the process-global counter."""
    from .core import find, walk, show, path_of, pat_binds

    rep.rule(
        "D7",
        "relation/builder.rs TableBuilder: `path(p)` gives the table a name derived from p when it has none, and `name(n)` a path derived from n when it has none "
        "(an assignment to / `get_or_insert_with` on the other field whose value is made from the parameter): `try_build` falls back to `namer::new_name(\"table\")`, the global counter, only for a table with neither",
        floor=2,
        necessary="a table built from its path alone is named table_0, table_1 .. in the order of construction in the process; the name is part of the Table value and of its hash, so every generated map_ / join_ / CTE name "
        "of the same SQL over the same catalog differs from one compilation to the next",
    )
    for meth, other in (("path", "name"), ("name", "path")):
        fs = [f for f in src.find_fns(name=meth, file="relation/builder.rs") if (f.self_ty or "").startswith("TableBuilder") and f.body and not f.test]
        key = "TableBuilder::%s@%s" % (meth, other)
        if len(fs) != 1:
            rep.undecidable("D7", key, "expected one TableBuilder::%s, found %d" % (meth, len(fs)), "src/relation/builder.rs")
            continue
        f = fs[0]
        pn = [p["pat"]["name"] for p in f.params if not p.get("self") and p["pat"]["k"] == "ident"]
        derived = set(pn)
        for l in find(f.body, "let"):  # `let path: Identifier = path.into();`
            if l.get("init") is not None and any(x["k"] == "path" and x["segs"][0] in derived for x in walk(l["init"])):
                derived |= set(pat_binds(l["pat"]))
        made_from_param = lambda e: any(x["k"] == "path" and len(x["segs"]) == 1 and x["segs"][0] in derived for x in walk(e))
        target = "self." + other
        hits = []
        for x in walk(f.body):
            if x["k"] == "assign" and show(x["lhs"], 0).replace(" ", "") == target and made_from_param(x["rhs"]):
                hits.append(x)
            if x["k"] == "mcall" and x["m"] in ("get_or_insert_with", "get_or_insert", "insert", "replace") and show(x["recv"], 0).replace(" ", "") == target and x["args"] and made_from_param(x["args"][0]):
                hits.append(x)
            if x["k"] == "struct" and any(fl["name"] == other and made_from_param(fl["e"]) for fl in x.get("fields", [])):
                hits.append(x)
        rep.instance("D7", key, {"method": meth, "sets": other, "from_parameter": bool(hits)})
        if not hits:
            rep.violation("D7", key, "TableBuilder::%s does not derive the table's %s from its argument: a table given by its %s alone is named by the global counter" % (meth, other, meth), f.where())


def run(rep):
    rep.explanation = (
        "Inventory by reachability over the instantiation-aware call graph of crate qrlew (rustc MIR, cargo +nightly check --lib). "
        "Decides that no hash-order iteration with an order-sensitive consumer (D1), no use of the global name counter (D2), no other process state (D3) and no ambient "
        "non-determinism (D4) is reachable from the parsing, rendering and typing entry points. Does NOT decide semantic equality of re-parsed SQL (C08). "
        "Sites reachable only from the DP/PUP rewriting entry points are listed under coverage.observations_rewrite_scope."
    )
    R = Reach()
    mir, g = R.mir, R.g
    seen, lp, sup, stale = R.reach(SCOPE)
    seen_rw, lp_rw, _, _ = R.reach(["REWRITE"])
    for nm in SCOPE + ["REWRITE"]:
        n = len(R.roots(nm))
        if n < FLOORS[nm]:
            rep.error("entry set %s has %d roots, below the floor %d" % (nm, n, FLOORS[nm]))
    rep.extra["entry_roots"] = {nm: sorted({g.nodes[i]["n"] for i in R.roots(nm)})[:40] for nm in SCOPE + ["REWRITE"]}
    rep.extra["reachable"] = {"instances": len(seen), "local_bodies": len(lp), "of_local_bodies": len(mir.bodies), "mono_graph_nodes": len(g.nodes), "resolution_failures": g.failures}
    rep.extra["suppressed_edges"] = [{"edge": e} for e in sup]
    for s in stale:
        rep.violation("D0", "suppression:%s->%s" % tuple(s["edge"]), "edge suppression no longer valid: new callers %s" % s["unexpected_callers"], "qv/reach.py")
    rep.assume("calls through fn pointers are resolved at the reification site; drop glue is not followed (no Drop impl outside io/)")
    rep.assume("rustc's Instance::try_resolve under TypingEnv::fully_monomorphized resolves every static call (failures counted: %d)" % g.failures)

    rep.rule("D0", "reachability bookkeeping: entry sets non-empty, edge suppressions still justified", floor=0)
    obs = []

    # ---------------- D1 hash-order iteration
    rep.rule(
        "D1",
        "every iteration over a HashMap/HashSet in a body reachable from PARSE u RENDER u TYPE is consumed order-insensitively in the same body "
        "(collected into a BTree*/Hash* container, or all/any/count/len/contains/min/max/sum)",
        floor=0,
        necessary="the iteration order of std hash containers differs between processes (RandomState); any order-sensitive consumer makes names, column order or rendered text differ between two compilations",
    )
    n_sites = 0
    for b in mir.bodies:
        for bi, cal, args, dst, tgt, line, macs, raw in mir.calls(b):
            if not cal or not HASH_TY.search(cal["full"]) or not HASH_ITER.search(cal["path"]):
                continue
            n_sites += 1
            key = "%s->%s" % (b["path"], short(cal["path"]))
            where = "%s:%d" % (b["file"], line)
            cons = consumer_of(mir, b, bi)
            ok = False
            why = "no consumer found"
            if cons:
                cn = short(cons[0])
                if cn in ORDER_FREE:
                    ok, why = True, "%s (%s)" % (cn, ORDER_FREE[cn])
                elif cn in ("collect", "from_iter", "extend") and re.search(r"(BTreeMap|BTreeSet|HashMap|HashSet)", cons[1]):
                    ok, why = True, "collected into an order-free or sorted container"
                else:
                    why = "consumed by %s" % cons[0]
            in_scope = b["path"] in lp
            in_rw = b["path"] in lp_rw
            sample = {"site": key, "where": where, "consumer": why, "reachable_from_parse_render_type": in_scope, "reachable_from_rewrite": in_rw}
            rep.instance("D1", key, sample, nontrivial=in_scope or in_rw)
            if ok:
                continue
            if in_scope:
                rep.violation("D1", key, "hash-order iteration with an order-sensitive consumer (%s); path: %s" % (why, " -> ".join(R.chain(seen, lp[b["path"]])[-6:])), where)
            elif in_rw:
                obs.append(dict(sample, rule="D1"))
    rep.extra["hash_iteration_sites_in_crate"] = n_sites

    # ---------------- D2 global counter
    rep.rule(
        "D2",
        "no call of the global name counter (namer::new_name / new_id -> namer::count) in an instance reachable from PARSE u RENDER u TYPE; names come from name_from_content / new_name_outside",
        floor=1,
        necessary="the counter is process-global: a second compilation of the same text (or a concurrent one) gets different names, so relations and rendered SQL differ",
    )
    for scope_name, sn, lpaths in (("scope", seen, lp), ("rewrite", seen_rw, lp_rw)):
        done = set()
        for i in sn:
            n = g.nodes[i]
            if not n["l"]:
                continue
            for (c, l) in n["c"]:
                cp = g.nodes[c]["p"]
                if cp in COUNTER_FNS and n["p"] not in COUNTER_FNS:
                    key = "%s->%s" % (n["p"], COUNTER_FNS[cp])
                    if (key, scope_name) in done:
                        continue
                    done.add((key, scope_name))
                    body = mir.by_path.get(n["p"])
                    where = "%s:%d" % (body["file"], l) if body else n["p"]
                    if scope_name == "scope":
                        rep.instance("D2", key, {"caller": n["p"], "callee": cp, "where": where})
                        rep.violation("D2", key, "global-counter name reachable from parse/render/type: %s" % " -> ".join(R.chain(sn, i)[-6:] + [cp]), where)
                    elif n["p"] not in lp:
                        obs.append({"rule": "D2", "site": key, "where": where})
    # the allowed namers exist and do not touch the counter
    for p in sorted(ALLOWED_NAMERS):
        b = mir.by_path.get(p)
        rep.instance("D2", "allowed:" + p, {"allowed_namer": p, "present": bool(b)}, nontrivial=False)
        if b:
            for bi, cal, *_ in mir.calls(b):
                if cal and cal["path"] in COUNTER_FNS:
                    rep.violation("D2", p + "->count", "content-based namer uses the global counter", "%s:%d" % (b["file"], b["line"]))

    # ---------------- D3 process state
    rep.rule(
        "D3",
        "statics / thread-locals touched by reachable bodies are within {namer::COUNTER (reachable only through D2 sites), the constant function-implementation tables of expr::implementation}",
        floor=1,
        necessary="any other mutable process state read during compilation makes the result depend on earlier or concurrent compilations",
    )
    ALLOWED_STATICS = {"namer::COUNTER"}
    # immutable statics without interior mutability are constants, not process state (read from the syn facts)
    from .core import Src

    src = Src(facts.src_facts())
    const_statics = set()
    for (_f, mod, it) in src.find_items("static"):
        ty = it.get("ty", "")
        if not it.get("mut") and not re.search(r"(Mutex|RwLock|Cell|Atomic|Once|Lazy|Lock)", ty):
            const_statics.add((mod + "::" if mod else "") + it["name"])
    statics = {}
    for b in mir.bodies:
        for bl in b["blocks"]:
            for st in bl["s"]:
                rv = st[1]
                found = []
                if rv[0] == "tls":
                    found.append(("tls", rv[1]))

                def visit(x):
                    if isinstance(x, list):
                        if len(x) >= 2 and x[0] == "k" and isinstance(x[1], str) and x[1].startswith("static:"):
                            found.append(("static", x[1][7:]))
                        else:
                            for y in x:
                                visit(y)

                visit(rv)
                for kind, name in found:
                    statics.setdefault((kind, name), set()).add(b["path"])
            t = bl["t"]
            if t[0] == "call":
                for a in t[2]:
                    if a[0] == "k" and isinstance(a[1], str) and a[1].startswith("static:"):
                        statics.setdefault(("static", a[1][7:]), set()).add(b["path"])
    for (kind, name), users in sorted(statics.items()):
        users_in = sorted(u for u in users if u in lp)
        key = "%s:%s" % (kind, name)
        rep.instance("D3", key, {"static": name, "kind": kind, "users": sorted(users)[:6], "reachable_users": users_in[:6]}, nontrivial=bool(users_in))
        if not users_in:
            continue
        if name in ALLOWED_STATICS or name in const_statics:
            continue
        if kind == "tls" and name.startswith("expr::implementation::"):
            # constant tables: their initialisers must not reach any nondeterminism source (checked below through reachability of the init closures)
            continue
        rep.violation("D3", key, "process state `%s` used in reachable code (%s)" % (name, users_in[:3]), users_in[0])

    # ---------------- D4 ambient nondeterminism
    rep.rule(
        "D4",
        "no random generator, clock, environment, thread/process identity or pointer formatting is reachable from PARSE u RENDER u TYPE",
        floor=0,
        necessary="each is a value that differs between two runs of the same compilation",
    )
    checked = 0
    for i in seen:
        n = g.nodes[i]
        for rx, what in AMBIENT:
            if rx.search(n["p"]):
                # report at the local caller
                ch = R.chain(seen, i)
                loc = [x for x in ch if not x.startswith(("std::", "core::", "<std::", "alloc::", "rand"))]
                key = "%s->%s" % (g.nodes[seen[i]]["p"] if seen[i] is not None else "?", n["p"])
                rep.violation("D4", key, "%s reachable: %s" % (what, " -> ".join(ch[-6:])), loc[-1] if loc else n["p"])
        checked += 1
    rep.instance("D4", "reachable-instances", {"instances_checked": checked, "patterns": [w for _, w in AMBIENT]})
    # positive control: the patterns do match something in the crate as a whole (rand is used by the DP / sampling code)
    ctrl = [n["p"] for n in g.nodes if any(rx.search(n["p"]) for rx, _ in AMBIENT)]
    rep.instance("D4", "positive-control", {"ambient_sources_anywhere_in_graph": len(ctrl), "examples": sorted(set(ctrl))[:5]}, nontrivial=bool(ctrl))
    if not ctrl:
        rep.error("D4 positive control failed: no ambient-nondeterminism callee found anywhere in the crate graph (pattern table stale?)")
    for i in seen_rw:
        n = g.nodes[i]
        if i in seen:
            continue
        for rx, what in AMBIENT:
            if rx.search(n["p"]) and seen_rw[i] is not None and g.nodes[seen_rw[i]]["l"]:
                obs.append({"rule": "D4", "site": "%s->%s" % (g.nodes[seen_rw[i]]["p"], n["p"]), "what": what})
    d5(rep, R, seen)
    # rendering is a fixpoint only if what the renderer leaves implicit is what the reader assumes (sort direction, CTE names, float literals): shared with C08
    from . import c08 as _c08
    from .core import Src as _Src

    _src = _Src(facts.src_facts())
    _c08.e19(rep, _src)
    _c08.e14(rep, _src)
    d6(rep, _src)
    d7(rep, _src)
    rep.extra["observations_rewrite_scope"] = obs[:60]
