"""Shared extraction for C08 / C17: what each translator renders for each IR operator (from the type-resolved MIR),
and what each reader parses each SQL function name into (from the syn AST)."""
import re
from collections import defaultdict

RTQ = "dialect_translation::RelationToQueryTranslator"
QTR = "dialect_translation::QueryToRelationTranslator"
FUNC_ENUM = "expr::function::Function"
AGG_ENUM = "expr::aggregate::Aggregate"
VALUE_ENUM = "data_type::value::Value"
PANIC_FN = re.compile(r"^(core|std)::panicking::|^std::rt::begin_panic|^core::panic::")


def preds(body):
    P = defaultdict(set)
    for i, bl in enumerate(body["blocks"]):
        if bl["c"]:
            continue
        for s in succs(bl["t"]):
            P[s].add(i)
    return P


def succs(t):
    k = t[0]
    if k == "goto":
        return [t[1]]
    if k == "drop":
        return [t[2]]
    if k == "call":
        return [t[4]] if t[4] is not None else []
    if k == "assert":
        return [t[4]]
    if k == "switch":
        return [x[1] for x in t[2]] + [t[3]]
    return []


def aborting_blocks(mir, body):
    """blocks from which every path reaches a diverging panic call without passing through a `ret`."""
    n = len(body["blocks"])
    ab = set()
    for i, bl in enumerate(body["blocks"]):
        t = bl["t"]
        if t[0] == "call" and t[4] is None and isinstance(t[1], int) and PANIC_FN.search(mir.callees[t[1]]["path"]):
            ab.add(i)
        elif t[0] == "unreachable":
            pass
    changed = True
    while changed:
        changed = False
        for i, bl in enumerate(body["blocks"]):
            if i in ab or bl["c"]:
                continue
            ss = succs(bl["t"])
            if ss and all(s in ab for s in ss) and bl["t"][0] != "switch":
                ab.add(i)
                changed = True
    return ab


def dispatch(mir, body, enum):
    """For a body that switches on `enum`: {variant: info} with info = {'abort': bool, 'calls': [callee dicts], 'aggs': [adt names]}
    following the arm's linear path; variants that are not listed explicitly get the `otherwise` arm of the switch that
    tests them last (nested default matches are followed)."""
    blocks = body["blocks"]
    sw = [(i, bl["t"]) for i, bl in enumerate(blocks) if bl["t"][0] == "switch" and bl["t"][4] == enum]
    if not sw:
        return None
    variants = sw[0][1][5]
    ab = aborting_blocks(mir, body)
    P = preds(body)

    def walk(start):
        calls, aggs, consts = [], [], []
        cur = start
        seen = set()
        first = True
        while cur is not None and cur not in seen:
            seen.add(cur)
            if not first and len(P.get(cur, ())) > 1:
                break  # merge point of several arms
            first = False
            bl = blocks[cur]
            for st in bl["s"]:
                rv = st[1]
                if rv[0] == "agg" and rv[1].startswith("adt:"):
                    aggs.append(rv[1][4:])
                if rv[0] == "use" and rv[1][0] == "k" and isinstance(rv[1][1], str) and rv[1][1].startswith('"'):
                    consts.append(rv[1][1].strip('"'))
            t = bl["t"]
            if t[0] == "call":
                if isinstance(t[1], int):
                    calls.append(mir.callees[t[1]])
                for a in t[2]:
                    if a[0] == "k" and isinstance(a[1], str) and a[1].startswith('"'):
                        consts.append(a[1].strip('"'))
                cur = t[4]
            elif t[0] == "goto":
                cur = t[1]
            elif t[0] == "drop":
                cur = t[2]
            elif t[0] == "assert":
                cur = t[4]
            else:
                break
        return calls, aggs, consts

    out = {}
    sw_at = {i: t for (i, t) in sw}

    def next_switch(bb):
        """the switch on the same enum reached from bb through call-free gotos (a nested `match` in the default arm)."""
        cur, hops = bb, 0
        while cur is not None and hops < 6:
            hops += 1
            if cur in sw_at:
                return cur
            t = blocks[cur]["t"]
            if t[0] == "goto":
                cur = t[1]
            else:
                return None
        return None

    first = sw[0][0]
    for v in variants:
        cur = first
        bb, is_default = None, False
        for _ in range(8):
            t = sw_at[cur]
            tgt = [b for (vv, b) in t[2] if vv == v]
            if tgt:
                bb = tgt[0]
                break
            nxt = next_switch(t[3])
            if nxt is None or nxt == cur:
                bb, is_default = t[3], True
                break
            cur = nxt
        calls, aggs, consts = walk(bb)
        out[v] = {"abort": bb in ab, "calls": calls, "aggs": aggs, "consts": consts, "default_arm": is_default, "bb": bb}
    return out


def rtq_method(callee):
    """method name if the callee is a RelationToQueryTranslator trait method (resolved or not)."""
    for p in (callee.get("orig", ""), callee.get("path", "")):
        if p.startswith(RTQ + "::"):
            return p[len(RTQ) + 2 :]
        m = re.match(r"^<.* as %s>::(\w+)$" % re.escape(RTQ), p)
        if m:
            return m.group(1)
    return None


def translators(mir):
    """{translator type path: {method: body}} of impl RelationToQueryTranslator for T (overrides only)."""
    out = defaultdict(dict)
    rx = re.compile(r"^<(dialect_translation::\w+::\w+) as %s>::(\w+)$" % re.escape(RTQ))
    for b in mir.bodies:
        if b["kind"] == "Closure":
            continue
        m = rx.match(b["path"])
        if m:
            out[m.group(1)][m.group(2)] = b
    return out


def default_methods(mir):
    out = {}
    for b in mir.bodies:
        if b["kind"] != "Closure" and b["path"].startswith(RTQ + "::") and b["path"].count("::") == RTQ.count("::") + 1:
            out[b["path"][len(RTQ) + 2 :]] = b
    return out


def spelling(mir, body):
    """How a translator method spells its operator: ('fn', NAME, distinct) for function_builder("NAME", .., distinct),
    ('ast', [constructed sqlparser Expr variants]) otherwise; follows one level of delegation to another RTQ method."""
    strs, distinct, fb = [], None, False
    adts = []
    delegates = []
    for bl in body["blocks"]:
        if bl["c"]:
            continue
        for st in bl["s"]:
            rv = st[1]
            if rv[0] == "use" and rv[1][0] == "k" and isinstance(rv[1][1], str) and rv[1][1].startswith('"'):
                strs.append(rv[1][1].strip('"'))
            if rv[0] == "agg" and rv[1].startswith("adt:sqlparser::ast::"):
                adts.append(rv[1][len("adt:sqlparser::ast::") :])
        t = bl["t"]
        if t[0] == "call" and isinstance(t[1], int):
            c = mir.callees[t[1]]
            for a in t[2]:
                if a[0] == "k" and isinstance(a[1], str) and a[1].startswith('"'):
                    strs.append(a[1].strip('"'))
            if c["path"].endswith("dialect_translation::function_builder"):
                fb = True
                d = t[2][2] if len(t[2]) > 2 else None
                if d and d[0] == "k":
                    distinct = d[1] == "true"
            elif c["path"].rsplit("::", 1)[-1] in ("cast_builder", "extract_builder", "case_builder", "binary_op_builder", "unary_op_builder"):
                adts.append("via:" + c["path"].rsplit("::", 1)[-1])
            else:
                mth = rtq_method(c)
                if mth:
                    delegates.append(mth)
    if fb and len(set(strs)) >= 1:
        names = [s for s in strs if re.match(r"^[A-Za-z_][A-Za-z0-9_]*$", s)]
        if len(set(names)) == 1:
            return ("fn", names[0].upper(), bool(distinct))
        return ("fn?", sorted(set(names)), bool(distinct))
    if adts:
        return ("ast", sorted(set(adts)))
    if delegates:
        return ("delegate", delegates)
    return ("unknown",)


def resolved_method(trs, defaults, translator, method):
    """body of `method` for this translator: its override or the trait default."""
    if translator and method in trs.get(translator, {}):
        return trs[translator][method], "override"
    if method in defaults:
        return defaults[method], "default"
    return None, None


# ------------------------------------------------------------------------------------------------ parser side (syn AST)


def snake_to_variant(name):
    return "".join(p.capitalize() for p in name.split("_"))


def builder_variants(src):
    """snake-case `Expr::<builder>` name -> Function / Aggregate variant, read from the constructor macros of expr/mod.rs
    (util_terms.builder_table) with the plain CamelCase rule as a fallback for hand-written constructors."""
    try:
        from .util_terms import builder_table

        tb = builder_table(src)
        out = {}
        for k, v in tb.items():
            var = v.get("variant") if isinstance(v, dict) else (v[0] if isinstance(v, (tuple, list)) else v)
            if var:
                out[k] = var
        return out
    except Exception:
        return {}


def heads(e, src_fns=None, depth=0):
    """Outermost `Expr::<builder>` heads an arm body can evaluate to (through if/else, blocks, `?`, folds and one level of self.<helper>)."""
    from .core import path_of, walk

    if e is None:
        return set()
    k = e["k"]
    if k == "block":
        st = e["stmts"]
        if st and st[-1]["k"] == "expr" and not st[-1].get("semi"):
            return heads(st[-1]["e"], src_fns, depth)
        return set()
    if k == "if":
        return heads(e["then"], src_fns, depth) | heads(e.get("else"), src_fns, depth)
    if k == "match":
        out = set()
        for a in e["arms"]:
            out |= heads(a["body"], src_fns, depth)
        return out
    if k == "try":
        return heads(e["e"], src_fns, depth)
    if k == "call":
        p = path_of(e["f"]) or ""
        if p.startswith("Expr::") and p.count("::") == 1:
            return {p[6:]}
        if p in ("Ok", "Some") and e["args"]:
            return heads(e["args"][0], src_fns, depth)
        return {"?" + p}
    if k == "mcall":
        if e["m"] == "fold" and len(e["args"]) == 2 and e["args"][1]["k"] == "closure":
            return heads(e["args"][1]["body"], src_fns, depth)
        if path_of(e["recv"]) == "self" and src_fns and depth < 1 and e["m"] in src_fns:
            out = set()
            for x in walk(src_fns[e["m"]].body):
                if x["k"] == "call" and (path_of(x["f"]) or "").startswith("Expr::") and (path_of(x["f"]) or "").count("::") == 1:
                    out.add(path_of(x["f"])[6:])
            return out or {"?self." + e["m"]}
        if e["m"] in ("clone", "into", "unwrap", "map_err"):
            return heads(e["recv"], src_fns, depth)
        return {"?." + e["m"]}
    return {"?" + k}


def function_name_table(fn):
    """{(sql name lower, distinct flag or None): set of builder heads} from a `match function_name { "x" => .. }`."""
    from .core import find, show

    out = {}
    default = None
    ms = [m for m in find(fn.body, "match") if any(a["pat"]["k"] == "lit" or (a["pat"]["k"] == "or" and all(c["k"] == "lit" for c in a["pat"]["cases"])) for a in m["arms"])]
    if not ms:
        return None, None
    m = max(ms, key=lambda x: len(x["arms"]))
    for a in m["arms"]:
        pats = a["pat"]["cases"] if a["pat"]["k"] == "or" else [a["pat"]]
        g = a.get("guard")
        flag = None
        if g is not None:
            s = show(g, 0).replace(" ", "")
            flag = True if s == "distinct" else (False if s == "!distinct" else "guard:" + s)
        for p in pats:
            if p["k"] == "lit" and p["t"] == "str":
                out.setdefault((p["v"], flag), a)
            elif p["k"] == "wild":
                default = a
    return out, default
