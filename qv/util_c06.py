"""C06 — the structural rules P (constructor plumbing), A (aggregate images), O2 (corner hull), O (wrappers, visitors).

All of them read small function bodies through `norm`, a normaliser that erases ownership adaptors (clone / into / as_ref /
iter / collect / & / Arc::new), resolves `let` bindings and names closure parameters by role, so that a rule compares the
*shape* of the computation (set ∩ piece, ∪ of pieces, value(a, b) ...) and not its spelling.
"""
from .core import Anchor, find, walk, show, path_of, is_call_to

FN = "data_type/function.rs"
ADAPT = ("clone", "into", "as_ref", "iter", "into_iter", "collect", "to_owned", "borrow", "cloned", "to_vec")


def bind(env, pat, term):
    """bind the names of a closure / let pattern to `term` (tuple patterns bind projections)."""
    if pat["k"] == "typed":
        return bind(env, pat["pat"], term)
    if pat["k"] == "ident":
        env[pat["name"]] = term
    elif pat["k"] == "tuple":
        for i, e in enumerate(pat["elems"]):
            bind(env, e, (term[0], i) if _marker(term) else ("proj", term, i))
    elif pat["k"] == "ref":
        bind(env, pat["pat"], term)


def _marker(t):
    return isinstance(t, tuple) and len(t) == 1 and isinstance(t[0], str) and (t[0] in ("elem", "acc") or t[0].startswith("arg"))


def norm(n, env):
    k = n["k"]
    if k == "path":
        if len(n["segs"]) == 1:
            return env.get(n["segs"][0], ("var", n["segs"][0]))
        return ("const", n["p"])
    if k == "lit":
        if n.get("t") == "float":
            try:
                return ("lit", str(float(str(n["v"]).replace("_", ""))))
            except ValueError:
                pass
        return ("lit", str(n["v"]))
    if k in ("ref", "try", "paren"):
        return norm(n["e"], env)
    if k == "return" and n.get("e") is not None:
        return norm(n["e"], env)  # the value leaving the function through an early return is read like a tail value
    if k == "unary":
        return norm(n["e"], env) if n["op"] == "*" else ("un", n["op"], norm(n["e"], env))
    if k == "binary":
        return ("bin", n["op"], norm(n["lhs"], env), norm(n["rhs"], env))
    if k == "field":
        b = norm(n["e"], env)
        if n["name"].isdigit() and _marker(b):
            return (b[0], int(n["name"]))
        return ("field", b, n["name"])
    if k == "index":
        return ("index", norm(n["e"], env), norm(n["i"], env))
    if k == "mcall":
        r = norm(n["recv"], env)
        m, a = n["m"], n["args"]
        if m in ADAPT and not a:
            return r
        if m in ("intersection", "union") and len(a) == 1:
            return (m, frozenset([r, norm(a[0], env)]))
        if m in ("map", "flat_map", "find_map", "filter_map") and len(a) == 1 and a[0]["k"] == "closure" and len(a[0]["params"]) == 1:
            e = dict(env)
            bind(e, a[0]["params"][0], ("elem",))
            return (m, r, norm(a[0]["body"], e))
        if m in ("map", "flat_map") and len(a) == 1 and a[0]["k"] == "path" and a[0]["segs"][-1] in ("into", "from", "clone", "to_owned", "as_ref", "deref") and a[0]["segs"][-2:-1] in (["Into"], ["From"], ["Clone"], ["ToOwned"], ["AsRef"], ["Deref"], []):
            # point-free conversion `.map(Into::into)` == `.map(|x| x.into())`: the element itself for this calculus
            return (m, r, ("elem",))
        if m == "fold" and len(a) == 2 and a[1]["k"] == "closure" and len(a[1]["params"]) == 2:
            e = dict(env)
            bind(e, a[1]["params"][0], ("acc",))
            bind(e, a[1]["params"][1], ("elem",))
            return ("fold", r, norm(a[0], env), norm(a[1]["body"], e))
        return ("m", m, r) + tuple(norm(x, env) for x in a)
    if k == "call":
        f = n["f"]
        if is_call_to(n, "Arc::new", "Box::new", "Ok", "Some") and len(n["args"]) == 1 and f["segs"][-1] == "new":
            return norm(n["args"][0], env)
        args = tuple(norm(x, env) for x in n["args"])
        if f["k"] == "path" and len(f["segs"]) == 1 and f["segs"][0][:1].isupper():
            return ("call", f["segs"][0]) + args
        if f["k"] == "path" and len(f["segs"]) == 1:
            return ("app", env.get(f["segs"][0], ("var", f["segs"][0]))) + args
        if f["k"] == "field":  # (self.value)(x)
            return ("app", ("field", norm(f["e"], env), f["name"])) + args
        if f["k"] == "path":
            if f["segs"][-1] == "empty" and not args:
                return ("empty",)
            return ("call", "::".join(f["segs"][-2:])) + args
        return ("call", "?") + args
    if k == "closure":
        e = dict(env)
        d = env.get("#depth", 0)
        e["#depth"] = d + 1
        a = "arg" if d == 0 else "arg%d" % d  # nested closures get their own parameter marker
        for i, p in enumerate(n["params"]):
            bind(e, p, (a,) if len(n["params"]) == 1 else (a, i))
        return ("lam", norm(n["body"], e))
    if k == "macro" and n.get("name") == "vec" and "args" in n:
        return ("vec",) + tuple(norm(x, env) for x in n["args"])
    if k == "array":
        return ("array",) + tuple(norm(x, env) for x in n["elems"])
    if k == "tuple":
        return ("tuple",) + tuple(norm(x, env) for x in n["elems"])
    if k == "block":
        e = dict(env)
        last = ("unit",)
        for s in n["stmts"]:
            if s["k"] == "let" and s.get("init") is not None:
                bind(e, s["pat"], norm(s["init"], e))
            elif s["k"] == "expr" and s["e"]["k"] == "for":
                # `let mut v = vec![]; for x in xs { [for y in ys {] v.push(E) [}] }` is the comprehension xs.(flat_)map(|x| [ys.map(|y|] E [)]) collected into v
                comp = _loop_comprehension(s["e"], e)
                if comp is not None and e.get(comp[0]) in (("vec",), ("call", "Vec::new")):
                    e[comp[0]] = comp[1]
                else:
                    e.setdefault("#effects", ())
                    e["#effects"] = e["#effects"] + (("?", show(s["e"], 60)),)
                last = ("unit",)
            elif s["k"] == "expr" and s["e"]["k"] == "return" and s["e"].get("e") is not None:
                return norm(s["e"]["e"], e)  # `return x;` ends the block with the value x
            elif s["k"] == "expr":
                last = norm(s["e"], e)
                if s.get("semi"):
                    e.setdefault("#effects", ())
                    e["#effects"] = e["#effects"] + (last,)
                    last = ("unit",)
        return last
    return ("?", show(n, 80))


def _loop_comprehension(loop, env):
    """(accumulator name, normal form) of a push-only `for` nest, or None"""
    e = dict(env)
    bind(e, loop["pat"], ("elem",))
    seq = norm(loop["e"], env)
    body = loop["body"]
    stmts = body["stmts"] if body.get("k") == "block" else [{"k": "expr", "e": body}]
    if len(stmts) != 1 or stmts[0]["k"] != "expr":
        return None
    x = stmts[0]["e"]
    if x["k"] == "mcall" and x["m"] == "push" and len(x["args"]) == 1 and x["recv"]["k"] == "path" and len(x["recv"]["segs"]) == 1:
        return x["recv"]["segs"][0], ("map", seq, norm(x["args"][0], e))
    if x["k"] == "for":
        inner = _loop_comprehension(x, e)
        if inner is not None:
            return inner[0], ("flat_map", seq, inner[1])
    return None


def mentions(t, x):
    if t == x:
        return True
    if isinstance(t, (tuple, frozenset)):
        return any(mentions(c, x) for c in t)
    return False


def pm_fn(src, name):
    fs = [f for f in src.find_fns(name=name, file=FN) if (f.self_ty or "").startswith("PartitionnedMonotonic") and f.trait is None]
    if len(fs) != 1:
        raise Anchor("PartitionnedMonotonic::%s: expected one definition, found %d" % (name, len(fs)))
    return fs[0]


# ---------------------------------------------------------------------------------------------------------------- rule P

V = lambda s: ("var", s)
INTER = lambda a, b: ("intersection", frozenset([a, b]))
UNION = lambda a, b: ("union", frozenset([a, b]))

EXPECT = {
    # constructor -> normal form of its body: (callee, domain, partition, value)
    "from_intervals": ("call", "Self::new", V("domain"), ("lam", ("vec", INTER(("arg",), V("domain")))), V("value")),
    "univariate": ("call", "Self::new", V("domain"), ("lam", ("vec", INTER(("arg",), V("domain")))), ("lam", ("app", V("value"), ("arg", 0)))),
    "from_partitions": ("call", "Self::new", ("fold", V("partitions"), ("empty",), UNION(("acc",), ("elem",))), ("lam", ("map", V("partitions"), INTER(("arg",), ("elem",)))), V("value")),
    "bivariate": ("call", "Self::from_intervals", V("domain"), ("lam", ("app", V("value"), ("arg", 0), ("arg", 1)))),
    "piecewise_univariate": ("call", "Self::from_partitions", V("partitions"), ("lam", ("app", V("value"), ("arg", 0)))),
    "piecewise_bivariate": ("call", "Self::from_partitions", V("partitions"), ("lam", ("app", V("value"), ("arg", 0), ("arg", 1)))),
}
P_WHAT = {
    "from_intervals": "new(domain, |set| [set ∩ domain], value)",
    "univariate": "new(domain, |set| [set ∩ domain], |(a,)| value(a))",
    "from_partitions": "new(∪ pieces, |set| [set ∩ piece for every piece], value)",
    "bivariate": "from_intervals(domain, |(a, b)| value(a, b))",
    "piecewise_univariate": "from_partitions(pieces, |(a,)| value(a))",
    "piecewise_bivariate": "from_partitions(pieces, |(a, b)| value(a, b))",
}


def rule_p(rep, src):
    rep.rule(
        "P",
        "constructor plumbing of PartitionnedMonotonic: the declared domain is the union of the pieces, the partition function returns set ∩ piece for every piece (nothing else is done to the set), "
        "the value wrapper passes the tuple components to the closure in order; periodic_univariate must bring every interval of the set into the base period",
        floor=7,
        necessary="rule M proves monotonicity of the closure on the declared pieces in the declared argument order: a partition function that drops or moves a part of the set, or a wrapper that swaps arguments, "
        "makes super_image evaluate corners that do not bound the values of the set",
    )
    for name, want in EXPECT.items():
        f = pm_fn(src, name)
        key = "PartitionnedMonotonic::%s" % name
        got = norm(f.body, {})
        rep.instance("P", key, {"ctor": name, "shape": P_WHAT[name], "at": f.where()})
        if got != want:
            rep.violation("P", key, "the body is not `%s` up to ownership adaptors: %s" % (P_WHAT[name], show(f.body, 300)), f.where())
    # periodic
    f = pm_fn(src, "periodic_univariate")
    key = "PartitionnedMonotonic::periodic_univariate"
    env = {}
    got = norm(f.body, env)
    rep.instance("P", key, {"ctor": "periodic_univariate", "at": f.where()})
    ok_shape = got[:2] == ("call", "Self::new") and len(got) == 5
    if not ok_shape:
        rep.undecidable("P", key, "body does not end in Self::new(domain, partition, value)", f.where())
        return
    _, _, dom, part, val = got
    if val != ("lam", ("app", V("value"), ("arg", 0))):
        rep.violation("P", key, "the value wrapper is not |(a,)| value(a)", f.where())
    if not (dom[0] == "call" and any(mentions(dom, ("call", c)) for c in ("Intervals::default", "Intervals::full"))):
        rep.undecidable("P", key, "declared domain of a periodic function is not the full line: %r" % (dom,), f.where())
    pieces_union = ("fold", V("partitions"), ("empty",), UNION(("acc",), ("elem",)))
    un = lambda m, x: ("m", "unwrap", ("m", m, x))
    mn, mx = un("min", pieces_union), un("max", pieces_union)
    period = ("bin", "-", mx, mn)
    shift = ("m", "floor", ("bin", "/", ("bin", "-", un("min", ("arg",)), mn), period))
    by = lambda k: ("m", "map_bounds", ("arg",), ("lam", ("bin", "-", ("arg1",), ("bin", "*", k, period))))
    shifted = UNION(by(shift), by(("bin", "+", shift, ("lit", "1.0"))))
    want = ("lam", ("map", V("partitions"), INTER(shifted, ("elem",))))
    if part != want:
        rep.undecidable(
            "P",
            key + "@shift",
            "the partition closure is not `pieces.map(|piece| (set - s*T  U  set - (s+1)*T) ∩ piece)` with T = max - min of the pieces and s = floor((set.min - min) / T): "
            "this rule cannot validate another way of bringing the set into the base period",
            f.where(),
        )
        return
    rep.violation(
        "P",
        key + "@gaps",
        "the whole set is shifted by a number of periods computed from the minimum of the whole set (`set.min()`), applied to every interval (`set.map_bounds`), plus one more period: "
        "an interval of the set lying more than two periods above its minimum is shifted outside the base period and intersects no piece, so its values are missing from the image",
        f.where(),
    )


# ---------------------------------------------------------------------------------------------------------------- rule A

SELECT = ("first", "last", "min", "max", "min_by", "max_by")
REDUCE = ("sum", "fold", "len", "count", "product")


def uses(body, name):
    """(node, parent chain) for every mention of the local `name`."""
    out = []

    def rec(n, chain):
        if isinstance(n, list):
            for x in n:
                rec(x, chain)
            return
        if not isinstance(n, dict):
            return
        if n.get("k") == "path" and n.get("segs") == [name]:
            # `&name`, `(name)`, `*name` stand for the local itself (a helper inlined by the canonical form receives `&intervals`)
            u, ch = n, list(chain)
            while ch and ch[-1].get("k") in ("ref", "paren", "deref") and ch[-1].get("e") is u:
                u = ch.pop()
            out.append((u, ch))
            return
        for key, v in n.items():
            if key in ("k", "l", "el"):
                continue
            if isinstance(v, (dict, list)):
                rec(v, chain + [n] if "k" in n else chain)

    rec(body, [])
    return out


def tuple_names(c):
    if len(c["params"]) != 1:
        return None
    p = c["params"][0]
    if p["k"] == "typed":
        p = p["pat"]
    if p["k"] != "tuple" or len(p["elems"]) != 2 or any(e["k"] not in ("ident", "wild") for e in p["elems"]):
        return None
    return [e.get("name") for e in p["elems"]]


def agg_sites(src):
    out = []
    for f in src.fns:
        if f.test or f.body is None:
            continue
        if not any(is_call_to(n, "Aggregate::from") for n in find(f.body, "call")) or (f.self_ty or "").startswith("Aggregate"):
            continue
        from .canon import canon_view

        g = canon_view(f, src, lets=False)  # one-expression private helpers (`half_width(&intervals)`, `scaled_by_size(..)`) are read through
        for n in find(g.body, "call"):
            if is_call_to(n, "Aggregate::from"):
                out.append((g, n))
    return out


def elem_type(n):
    s = show(n, 80)
    for t in ("Integer", "Float", "Optional", "Any", "Text", "Boolean"):
        if t in s:
            return t
    return "?"


def rule_a(rep, src):
    rep.rule(
        "A",
        "in every Aggregate::from(domain, value, image): (hull) the element-set parameter of `image` is only returned as is [value closure selects an element: first/last/min/max], "
        "`.into_interval()`-ed, read through `.min()/.max()`, or unused — never fed as a multi-interval set into arithmetic; (size) when the value closure may drop elements (collect::<HashSet>, filter, filter_map) the size "
        "parameter is only read through `.max()`; (empty) a value closure with an `unwrap_or(default)` for the empty list needs an image that contains the default",
        floor=20,
        necessary="sum/mean-like aggregates of elements taken from several disjoint intervals reach values between the intervals: an image computed per interval excludes them; "
        "a distinct aggregate over n rows may reduce fewer than size.min() elements; the default returned for an empty list is a value like any other",
    )
    sites = agg_sites(src)
    if not sites:
        raise Anchor("no Aggregate::from call found")
    seen = {}
    for f, n in sites:
        base = "function::%s" % f.name if (f.self_ty is None and f.file == FN) else f.qual
        a = n["args"]
        where = "src/%s:%d" % (f.file, n["l"])
        key = "%s[%s]" % (base, elem_type(a[0]) if a else "?")
        seen[key] = seen.get(key, 0) + 1
        if seen[key] > 1:
            key += "#%d" % seen[key]
        if len(a) == 3:
            from .c06 import resolve

            a = [a[0], resolve(a[1], f), resolve(a[2], f)]
        if len(a) != 3 or a[1]["k"] != "closure" or a[2]["k"] != "closure":
            rep.instance("A", key, {"site": key, "at": where})
            rep.undecidable("A", key, "Aggregate::from whose value / image are not closure literals", where)
            continue
        value, image = a[1], a[2]
        names = tuple_names(image)
        if names is None:
            rep.instance("A", key, {"site": key, "at": where})
            rep.undecidable("A", key, "image closure does not destructure (elements, size)", where)
            continue
        vm = [x["m"] for x in find(value["body"], "mcall")]
        selects = any(m in SELECT for m in vm) and not any(m in REDUCE for m in vm)
        dedup = any(
            x["k"] == "mcall" and ((x["m"] == "collect" and "Set" in (x.get("turbofish") or "")) or x["m"] in ("filter", "filter_map", "dedup", "take", "skip", "flatten", "unique"))
            for x in walk(value["body"])
        )
        default = [x for x in find(value["body"], "mcall") if x["m"] == "unwrap_or"]
        el, sz = names
        how = []
        bad = []
        todo = [el] if el else []
        done = set()
        while todo:
            nm = todo.pop()
            if nm in done:
                continue
            done.add(nm)
            for u, chain in uses(image["body"], nm):
                par = chain[-1] if chain else None
                if par is not None and par["k"] == "let" and par.get("init") is u and par["pat"]["k"] == "ident":
                    todo.append(par["pat"]["name"])  # plain alias
                elif par is not None and par["k"] == "mcall" and par["recv"] is u and par["m"] in ("into_interval", "min", "max") and not par["args"]:
                    how.append("." + par["m"] + "()")
                elif par is not None and par["k"] == "call" and is_call_to(par, "Ok") and par["args"][0] is u:
                    how.append("returned")
                elif par is not None and par["k"] == "match" and par["e"] is u:
                    # match dt { pat => Ok(binding | projection) }: returned when every arm returns the whole scrutinee; a projection is narrower
                    for arm in par["arms"]:
                        b = arm["body"]
                        inner = b["args"][0] if is_call_to(b, "Ok") and len(b["args"]) == 1 else None
                        if inner is not None and inner["k"] == "path" and arm["pat"]["k"] == "ident" and inner["segs"] == [arm["pat"]["name"]]:
                            how.append("returned")
                        else:
                            how.append("projected:" + show(arm["pat"], 40))
                            bad.append(("hull", "arm `%s => %s` returns a component of the element type instead of the element type" % (show(arm["pat"], 40), show(b, 60))))
                else:
                    how.append("raw:" + show(par or u, 60))
                    bad.append(("hull", "the element set `%s` is used as `%s` without `.into_interval()`" % (nm, show(par or u, 80))))
        if "returned" in how and not selects:
            bad.append(("hull", "the element set is returned unchanged but the value closure does not select one of the elements (%s)" % show(value["body"], 80)))
        szu = []
        for u, chain in uses(image["body"], sz) if sz else []:
            par = chain[-1] if chain else None
            if par is not None and par["k"] == "mcall" and par["recv"] is u and par["m"] == "max" and not par["args"]:
                szu.append(".max()")
            else:
                szu.append("raw")
                if dedup:
                    bad.append(("size", "the value closure drops elements (HashSet / filter) but the image uses the list size `%s` itself (`%s`): fewer than size.min() elements may be aggregated" % (sz, show(par or u, 60))))
        if default and "returned" in how:
            bad.append(("empty", "the value closure returns `%s` for an empty list while the image is the element set itself" % show(default[0]["args"][0], 60)))
        row = {"site": key, "at": where, "elements": how or ["unused"], "size": szu or ["unused"], "selects": selects, "dedup": dedup}
        rep.instance("A", key, row, nontrivial=bool(how or szu))
        for sub, msg in dict.fromkeys(bad):
            rep.violation("A", "%s@%s" % (key, sub), msg, where)


# ---------------------------------------------------------------------------------------------------------------- rule O2


def rule_o2(rep, src):
    rep.rule(
        "O2",
        "PartitionnedMonotonic::super_image: for every piece returned by the partition function and every box of it, the interval is [least, greatest] of the closure values at ALL corners "
        "(sort ascending by partial_cmp + first/last); IntervalProduct::iter enumerates both ends of every coordinate and IntervalsProduct::iter every interval of every coordinate",
        floor=3,
        necessary="the hull of a subset of the corners, or of the corners of a subset of the boxes, does not contain the values reached at the omitted corners",
    )
    fs = [f for f in src.find_fns(name="super_image", file=FN) if (f.self_ty or "").startswith("PartitionnedMonotonic") and (f.trait or "").startswith("Function")]
    if len(fs) != 1:
        raise Anchor("impl Function for PartitionnedMonotonic::super_image not found")
    f = fs[0]
    key = "<PartitionnedMonotonic as Function>::super_image"
    env = {}
    got = norm(f.body, env)
    rep.instance("O2", key, {"at": f.where(), "normal_form": repr(got)[:400]})
    # result = partition(p).map(into) .flat_map(|prod| prod.map(|inter| <hull of corners>))
    res = None

    def search(t):
        nonlocal res
        if isinstance(t, tuple):
            if t[0] == "flat_map" and isinstance(t[2], tuple) and t[2][0] == "map" and t[2][1] == ("elem",):
                res = t
            for c in t:
                search(c)
        elif isinstance(t, frozenset):
            for c in t:
                search(c)

    search(got)
    if res is None:
        rep.undecidable("O2", key, "no `pieces.flat_map(|prod| prod.iter().map(|box| ..))` found in super_image", f.where())
        return
    pieces = res[1]
    want_pieces = ("map", ("app", ("field", V("self"), "partition"), None), ("elem",))
    if not (pieces[0] == "map" and pieces[2] == ("elem",) and pieces[1][0] == "app" and pieces[1][1] == ("field", V("self"), "partition")):
        rep.violation("O2", key, "the boxes do not come from every piece returned by (self.partition)(set): %r" % (pieces,), f.where())
    # the per-box closure: find it in the AST to read its statements
    box = None
    for c in find(f.body, "closure"):
        if any(x["k"] == "mcall" and x["m"] in ("sort_by", "sort", "sort_unstable_by", "min_by", "max_by") for x in walk(c["body"])) and not any(
            cc is not c and cc["k"] == "closure" and any(x["k"] == "mcall" and x["m"] in ("sort_by", "sort") for x in walk(cc["body"])) for cc in walk(c["body"])
        ):
            box = c
    if box is None or box["body"]["k"] != "block":
        rep.undecidable("O2", key, "the per-box closure (collect corner values, order them, take the ends) was not recognised", f.where())
        return
    corner_param = box["params"][0]["name"] if box["params"] and box["params"][0]["k"] == "ident" else None
    vec_name, ok_collect, ok_sort, tail = None, False, False, None
    box_lets = {}
    for s in box["body"]["stmts"]:
        if s["k"] == "let" and s.get("init") is not None:
            e = {corner_param: ("box",)} if corner_param else {}
            t = norm(s["init"], e)
            p = s["pat"]["pat"] if s["pat"]["k"] == "typed" else s["pat"]
            if t[0] == "map" and t[1] == ("box",) and t[2][0] == "app" and t[2][1] == ("field", V("self"), "value") and t[2][2:] == (("elem",),):
                vec_name, ok_collect = p.get("name"), True
            elif p.get("name"):
                box_lets[p["name"]] = norm(s["init"], dict(box_lets))  # `let last = corners.len() - 1;` is read through
        elif s["k"] == "expr" and s.get("semi"):
            e = s["e"]
            if e["k"] == "mcall" and e["m"] in ("sort_by", "sort_unstable_by") and path_of(e["recv"]) == vec_name and len(e["args"]) == 1 and e["args"][0]["k"] == "closure":
                cl = e["args"][0]
                ps = [p.get("name") for p in cl["params"]]
                pc = [x for x in find(cl["body"], "mcall") if x["m"] == "partial_cmp"]
                if len(ps) == 2 and len(pc) == 1 and path_of(pc[0]["recv"]) == ps[0] and norm(pc[0]["args"][0], {}) == V(ps[1]):
                    ok_sort = True
        elif s["k"] == "expr":
            tail = s["e"]
    if not ok_collect:
        rep.violation("O2", key, "the corner values are not `box.iter().map(|corner| (self.value)(corner.into())).collect()` over all corners", "src/%s:%d" % (FN, box["l"]))
    if not ok_sort:
        rep.violation("O2", key, "the corner values are not sorted ascending with `a.partial_cmp(b)` before the ends are taken", "src/%s:%d" % (FN, box["l"]))
    ends = None
    if tail is not None and tail["k"] in ("array", "tuple") and len(tail["elems"]) == 2 and vec_name:
        t0, t1 = (norm(x, dict(box_lets)) for x in tail["elems"])
        sv = V(vec_name)
        first = t0 in (("index", sv, ("lit", "0")), ("m", "first", sv), ("m", "unwrap", ("m", "first", sv)))
        last = t1 in (("index", sv, ("bin", "-", ("m", "len", sv), ("lit", "1"))), ("m", "last", sv), ("m", "unwrap", ("m", "last", sv)))
        ends = (first, last)
    if ends is None:
        rep.undecidable("O2", key, "the per-box result is not a two-element array over the sorted corner values", "src/%s:%d" % (FN, box["l"]))
    elif ends != (True, True):
        rep.violation("O2", key, "the interval of a box is `%s`: it must be [first, last] of the ascending corner values" % show(tail, 100), "src/%s:%d" % (FN, tail["l"]))
    # the two product iterators
    P = "data_type/product.rs"
    for trait, what in (("IntervalProduct", "both ends of every coordinate"), ("IntervalsProduct", "every interval of every coordinate")):
        its = [g for g in src.find_fns(name="iter", file=P) if (g.trait or "").startswith(trait) and (g.self_ty or "").startswith("Term")]
        if len(its) != 1:
            raise Anchor("impl %s for Term: iter not found" % trait)
        g = its[0]
        k2 = "<Term as %s>::iter" % trait
        t = norm(g.body, {})
        rep.instance("O2", k2, {"at": g.where(), "normal_form": repr(t)[:300]})
        nxt, val = ("field", V("self"), "next"), ("field", V("self"), "value")
        ok = False
        if t[0] == "flat_map" and t[1] == nxt and t[2][0] == "map" and t[2][1] == val:
            b = t[2][2]
            ok = b[0] == "call" and b[1].endswith("from_value_next") and len(b) == 4 and b[2] == ("elem",) and b[3][0] in ("elem", "var")
        if not ok:
            rep.violation("O2", k2, "iter() is not `next.iter().flat_map(|rest| value.iter().map(|x| Term(x, rest)))`: it must enumerate %s" % what, g.where())
        if trait == "IntervalProduct" and "[B ; 2]" not in (g.self_ty or "").replace("[B; 2]", "[B ; 2]"):
            rep.undecidable("O2", k2, "the coordinate of an IntervalProduct is not a [B; 2] pair of ends: %s" % g.self_ty, g.where())


# ---------------------------------------------------------------------------------------------------------------- rule O


def impl_fn(src, ty, name, file=FN, trait="Function"):
    fs = [f for f in src.find_fns(name=name, file=file) if (f.self_ty or "").split("<")[0].strip() == ty and (f.trait or "").split("<")[0].endswith(trait)]
    if len(fs) != 1:
        raise Anchor("impl %s for %s: `%s` not found (%d)" % (trait, ty, name, len(fs)))
    return fs[0]


def or_else_results(f):
    """[(node, body)] of the closures given to `.or_else(..)` in f."""
    out = []
    for m in find(f.body, "mcall"):
        if m["m"] in ("or_else", "unwrap_or_else", "or", "unwrap_or") and m["args"]:
            a = m["args"][0]
            out.append((m, a["body"] if a["k"] == "closure" else a))
    return out


def is_codomain(t, allow_plain):
    """normal form of an expression that is the wrapped function's co-domain made optional."""
    opt = lambda x: isinstance(x, tuple) and x[0] == "call" and x[1] == "DataType::optional" and len(x) == 3
    cod = lambda x: isinstance(x, tuple) and x[0] == "m" and x[1] == "co_domain" and len(x) == 3
    if t[0] == "call" and t[1].endswith("Ok") and len(t) == 3:
        t = t[2]
    if opt(t) and cod(t[2]):
        return True
    if allow_plain and cod(t) and t[2] == V("self"):
        return True
    return False


def rule_o(rep, src):
    rep.rule(
        "O",
        "wrappers are conservative: Optional / Extended fall back to (optional of) the co-domain on error and wrap the image in optional whenever the value may be NULL; "
        "Polymorphic maps every field of a Union and tries its implementations in the same order for a value and for a set; SuperImageVisitor / ValueVisitor and expr::Function::{super_image, value} "
        "pass the arguments in the same order and arity to the implementation",
        floor=8,
        necessary="an error fallback narrower than the co-domain (e.g. Null) excludes every value the function returns on the inputs for which the image computation failed; "
        "a different dispatch or argument order for the value and for the set pairs a value with the range of another function",
    )
    # Optional
    co = impl_fn(src, "Optional", "co_domain")
    t = norm(co.body, {})
    key = "<Optional as Function>::co_domain"
    rep.instance("O", key, {"at": co.where(), "normal_form": repr(t)[:200]})
    inner = ("call", "DataType::optional", ("m", "co_domain", ("field", V("self"), "0")))
    if t not in (inner, ("m", "flatten_optional", inner)):
        rep.violation("O", key, "Optional::co_domain is not optional(co-domain of the wrapped function)", co.where())
    si = impl_fn(src, "Optional", "super_image")
    key = "<Optional as Function>::super_image"
    oe = or_else_results(si)
    rep.instance("O", key, {"at": si.where(), "fallbacks": [show(b, 80) for _, b in oe]})
    if not oe:
        rep.violation("O", key, "no error fallback: an inner error is propagated instead of the co-domain", si.where())
    for m, b in oe:
        if m["m"] != "or_else" or not is_codomain(norm(b, {}), True):
            rep.violation("O", key, "the error fallback is `%s`, not the co-domain" % show(b, 80), "src/%s:%d" % (FN, m["l"]))
    # the Optional(..) arm wraps the inner image in optional
    arms = [a for mt in find(si.body, "match") for a in mt["arms"] if any(path_of(p.get("path")) and p["path"]["segs"][-1] == "Optional" for p in walk(a["pat"]) if p["k"] == "tuplestruct")]
    if len(arms) != 1:
        rep.undecidable("O", key, "expected one match arm for DataType::Optional(..)", si.where())
    elif "DataType::optional" not in repr(norm(arms[0]["body"], {})):
        rep.violation("O", key, "the image of an optional set is not made optional: NULL arguments give NULL", "src/%s:%d" % (FN, arms[0]["l"]))
    va = impl_fn(src, "Optional", "value")
    key = "<Optional as Function>::value"
    oe = or_else_results(va)
    rep.instance("O", key, {"at": va.where(), "fallbacks": [show(b, 80) for _, b in oe]})
    for m, b in oe:
        if "Value::none" not in repr(norm(b, {})):
            rep.violation("O", key, "the error fallback of the value is `%s`, not NULL (the only value the fallback image is guaranteed to contain besides the co-domain)" % show(b, 80), "src/%s:%d" % (FN, m["l"]))
    # Extended
    si = impl_fn(src, "Extended", "super_image")
    key = "<Extended as Function>::super_image"
    oe = or_else_results(si)
    rep.instance("O", key, {"at": si.where(), "fallbacks": [show(b, 80) for _, b in oe]})
    if not oe:
        rep.violation("O", key, "no error fallback", si.where())
    for m, b in oe:
        if m["m"] != "or_else" or not is_codomain(norm(b, {}), False):
            rep.violation("O", key, "the error fallback is `%s`, not optional(co-domain of the wrapped function)" % show(b, 80), "src/%s:%d" % (FN, m["l"]))
    at = [m for m in find(si.body, "mcall") if m["m"] == "and_then" and m["args"] and m["args"][0]["k"] == "closure"]
    if len(at) != 1:
        rep.undecidable("O", key, "expected one `.and_then(|set_into_domain| ..)` for sets that leave the wrapped domain", si.where())
    else:
        tt = norm(at[0]["args"][0]["body"], {})
        if not (tt[0] == "call" and tt[1] == "DataType::optional" and mentions(tt, "super_image") or (tt[0] == "call" and tt[1].endswith("Ok") and tt[2][0] == "call" and tt[2][1] == "DataType::optional")):
            rep.violation("O", key, "a set that leaves the domain of the wrapped function gives NULL values: its image must be optional(..), found `%s`" % show(at[0]["args"][0]["body"], 100), "src/%s:%d" % (FN, at[0]["l"]))
    va = impl_fn(src, "Extended", "value")
    key = "<Extended as Function>::value"
    oe = or_else_results(va)
    rep.instance("O", key, {"at": va.where(), "fallbacks": [show(b, 80) for _, b in oe]})
    for m, b in oe:
        if "Value::none" not in repr(norm(b, {})):
            rep.violation("O", key, "the error fallback of the value is `%s`, not NULL" % show(b, 80), "src/%s:%d" % (FN, m["l"]))
    # Polymorphic
    si, va = impl_fn(src, "Polymorphic", "super_image"), impl_fn(src, "Polymorphic", "value")
    key = "<Polymorphic as Function>::super_image"
    t = norm(si.body, {})
    rep.instance("O", key, {"at": si.where()})
    fields_map = []

    def coll(x):
        if isinstance(x, tuple):
            if x[0] in ("map", "flat_map", "filter_map") and isinstance(x[1], tuple) and x[1][0] == "field" and x[1][2] == "fields":
                fields_map.append(x)
            for c in x:
                coll(c)
        elif isinstance(x, frozenset):
            for c in x:
                coll(c)

    ifs = [n for n in find(si.body, "if") if n["cond"]["k"] == "letcond" and "Union" in show(n["cond"]["pat"], 60)]
    # the same branch written as an arm: `match set { DataType::Union(union) => .., _ => .. }`
    ifs += [{"then": a["body"], "l": a.get("l", m.get("l", 0))} for m in find(si.body, "match") for a in m["arms"] if a["pat"]["k"] == "tuplestruct" and a["pat"]["path"]["segs"][-1] == "Union" and not a.get("guard")]
    if len(ifs) != 1:
        rep.undecidable("O", key, "no `if let DataType::Union(union) = set` branch", si.where())
    else:
        coll(norm(ifs[0]["then"], {}))
        ok = len(fields_map) == 1 and fields_map[0][0] == "map" and mentions(fields_map[0][2], ("m", "super_image", V("self"), ("elem", 1)))
        if not ok:
            rep.violation("O", key, "the image of a Union is not `fields.map(|(name, dt)| (name, self.super_image(dt)))` over every field", "src/%s:%d" % (FN, ifs[0]["l"]))
    disp = {}
    for nm, g, meth in (("super_image", si, "super_image"), ("value", va, "value")):
        fm = [m for m in find(g.body, "mcall") if m["m"] in ("find_map", "find", "filter_map", "map") and norm(m["recv"], {}) in (("field", V("self"), "0"),) or (m["m"] == "find_map")]
        fm = [m for m in fm if m["m"] == "find_map"]
        if len(fm) != 1:
            rep.undecidable("O", "<Polymorphic as Function>::%s" % nm, "expected one `self.0.iter().find_map(..)` dispatch", g.where())
            continue
        recv_chain = []
        r = fm[0]["recv"]
        while r["k"] == "mcall":
            recv_chain.append(r["m"])
            r = r["recv"]
        disp[nm] = (tuple(recv_chain), show(r, 40), norm(fm[0], {}))
        body = norm(fm[0], {})[2]
        if not (body[0] == "m" and body[1] == "ok" and body[2][:3] == ("m", meth, ("elem",))):
            rep.violation("O", "<Polymorphic as Function>::%s" % nm, "the dispatch closure is not `|implementation| implementation.%s(..).ok()`" % meth, "src/%s:%d" % (FN, fm[0]["l"]))
    rep.instance("O", "<Polymorphic as Function>::dispatch", {"chains": {k: [v[0], v[1]] for k, v in disp.items()}})
    if len(disp) == 2:
        for nm, (chain, root, _) in disp.items():
            if chain != ("iter",) or root != "self.0":
                rep.violation("O", "<Polymorphic as Function>::%s" % nm, "implementations are tried through `%s.%s` instead of `self.0.iter()`: value and image may select different implementations" % (root, ".".join(reversed(chain))), (si if nm == "super_image" else va).where())
    # visitors
    E = "expr/mod.rs"
    for vis, meth in (("SuperImageVisitor", "super_image"), ("ValueVisitor", "value")):
        g = [x for x in src.find_fns(name="function", file=E) if (x.self_ty or "").startswith(vis)]
        if len(g) != 1:
            raise Anchor("%s::function not found" % vis)
        g = g[0]
        key = "%s::function" % vis
        ps = [p["pat"]["name"] for p in g.params if not p.get("self") and p["pat"]["k"] == "ident"]
        t = norm(g.body, {})
        rep.instance("O", key, {"at": g.where(), "normal_form": repr(t)[:200]})
        if len(ps) != 2 or t != ("m", meth, V(ps[0]), V(ps[1])):
            rep.violation("O", key, "the visitor does not call `%s.%s(&<all arguments, in order>)`: found %s" % (ps[0] if ps else "function", meth, show(g.body, 160)), g.where())
        g = [x for x in src.find_fns(name="aggregate", file=E) if (x.self_ty or "").startswith(vis)]
        if len(g) == 1:
            g = g[0]
            ps = [p["pat"]["name"] for p in g.params if not p.get("self") and p["pat"]["k"] == "ident"]
            t = norm(g.body, {})
            rep.instance("O", "%s::aggregate" % vis, {"at": g.where()})
            if len(ps) != 2 or t != ("m", meth, V(ps[0]), V(ps[1])):
                rep.violation("O", "%s::aggregate" % vis, "the visitor does not call `aggregate.%s(&argument)`" % meth, g.where())
    # expr::Function::{super_image, value}: same slicing of the arguments
    EF = "expr/function.rs"
    gs = {nm: [x for x in src.find_fns(name=nm, file=EF) if (x.self_ty or "") == "Function" and x.trait is None] for nm in ("super_image", "value")}
    if any(len(v) != 1 for v in gs.values()):
        raise Anchor("expr::Function::super_image / value not found")
    shapes = {}
    for nm, (g,) in gs.items():
        ps = [p["pat"]["name"] for p in g.params if not p.get("self") and p["pat"]["k"] == "ident"]
        ms = list(find(g.body, "match"))
        if len(ms) != 1 or len(ps) != 1:
            rep.undecidable("O", "expr::Function::%s" % nm, "expected one `match self.arity()`", g.where())
            continue
        arms = {}
        for a in ms[0]["arms"]:
            t = norm(a["body"], {ps[0]: ("args",)})
            # erase the constructor name (DataType::structured_from_data_types vs Value::structured_from_values)
            if t[0] == "call":
                t = ("struct",) + t[2:]
            arms[show(a["pat"], 40)] = t
        shapes[nm] = arms
        tail = norm(g.body, {})
        if not mentions(tail, ("call", "implementation::function", V("self"))):
            rep.violation("O", "expr::Function::%s" % nm, "does not dispatch through implementation::function(self)", g.where())
    rep.instance("O", "expr::Function::super_image~value", {"arms": {k: {a: repr(t) for a, t in v.items()} for k, v in shapes.items()}})
    if len(shapes) == 2 and shapes["super_image"] != shapes["value"]:
        rep.violation("O", "expr::Function::super_image~value", "the set and the value are assembled from different argument slices: %r vs %r" % (shapes["super_image"], shapes["value"]), gs["super_image"][0].where())
