//! Compile-fail witnesses for C11/L1(d): code outside `data_type::intervals` cannot build or mutate an
//! `Intervals` except through its three owning functions.  Every witness has a compiling twin that differs
//! only by the offending line, so that a witness cannot pass merely because a path is wrong.
//! Run with `cargo +nightly test --doc --offline` (error codes are checked on nightly only); the doc-tests
//! are compiled (`no_run`), Qrlew code is never executed.

/// W1 — struct literal from outside the module (private fields).
/// ```compile_fail,E0451
/// use qrlew::data_type::intervals::Intervals;
/// let _i: Intervals<i64> = Intervals { capacity: 1, intervals: vec![[3, 1]] };
/// ```
/// twin:
/// ```no_run
/// use qrlew::data_type::intervals::Intervals;
/// let _i: Intervals<i64> = Intervals::from_interval(1, 3);
/// ```
pub struct W1;

/// W2 — writing an interval through `Deref` (no `DerefMut` / `IndexMut`).
/// ```compile_fail,E0594
/// use qrlew::data_type::intervals::Intervals;
/// let mut i: Intervals<i64> = Intervals::from_interval(1, 3);
/// i[0][0] = 10;
/// ```
/// twin:
/// ```no_run
/// use qrlew::data_type::intervals::Intervals;
/// let i: Intervals<i64> = Intervals::from_interval(1, 3);
/// let _x = i[0][0];
/// ```
pub struct W2;

/// W3 — a mutable view of the interval slice (`iter_mut`, `sort`, `swap` need `&mut [[B; 2]]`).
/// ```compile_fail,E0596
/// use qrlew::data_type::intervals::Intervals;
/// let mut i: Intervals<i64> = Intervals::from_interval(1, 3);
/// i.reverse();
/// ```
/// twin:
/// ```no_run
/// use qrlew::data_type::intervals::Intervals;
/// let i: Intervals<i64> = Intervals::from_interval(1, 3);
/// let _n = i.len();
/// ```
pub struct W3;

/// W4 — direct access to the private vector.
/// ```compile_fail,E0616
/// use qrlew::data_type::intervals::Intervals;
/// let mut i: Intervals<i64> = Intervals::from_interval(1, 3);
/// i.intervals.push([7, 0]);
/// ```
/// twin:
/// ```no_run
/// use qrlew::data_type::intervals::Intervals;
/// let i: Intervals<i64> = Intervals::from_interval(1, 3).union_interval(7, 9);
/// let _ = i;
/// ```
pub struct W4;
